"""Generates /verif/MANIFEST.json from one table (python3 bin/vf/manifest.py)."""
import json, os, sys

VERIF = os.path.dirname(os.path.dirname(os.path.dirname(os.path.abspath(__file__))))

TECH = "explicit TLA+ specification checked with TLC; TLC-generated behaviours replayed into the real library (ASan/UBSan build) with the spec's predicted observation compared after every call"

CHECKS = {
    "C01": dict(
        cat="model_checking", ref="7/C01",
        text="TLC explores every token sequence up to the bound over six schemas and checks that the parser state machine of "
             "Parser.tla agrees with the independent recursive-descent reference meaning of Lang.tla (three-valued: accepted / "
             "rejected / viable prefix, and the denotation on acceptance). Every explored behaviour is then rendered to text "
             "(canonical and seeded varied quoting/white space) and parsed by the real library; return code and the complete "
             "getter tree are compared with the specification's prediction; the same bytes are also fed through cfg_parse_fp and "
             "cfg_parse. Exhaustive within the bound, so any change of the 16-state machine or the value store that alters the "
             "meaning of a short text is caught. Beyond the bound, executions recorded from the real library on random schemas "
             "with long random texts (grammar-derived, then mutated) are validated line by line against the specification "
             "(Trace_Conf.tla).",
        note="Bounded (token count, value pool, six hand-built schemas); the text->number conversion is a finite table here (C04 owns it); "
             "trusted: TLC, the renderer (tokens->text), the driver's tree dump via public getters."),
    "C06": dict(
        cat="model_checking", ref="7/C06",
        text="Same parser model with a line-break choice before every token, multi-line comments and strings. TLC checks on the "
             "spec that a rejection always carries a diagnostic whose line is 1 + the newlines consumed so far and that accepted "
             "texts are silent; every behaviour is replayed and the first diagnostic's cfg->filename / cfg->line seen by a user "
             "error function is compared with the spec.",
        note="Bounded (<= 2 newlines per text in the exhaustive tier); message texts are not compared; include files are covered by C13."),
    "C15": dict(
        cat="model_checking", ref="7/C15",
        text="Comment tokens (empty and non-empty; '#', '//' and '/* */' chosen by the renderer) are in the token alphabet at every "
             "token boundary. TLC checks on the spec that stripping the comments changes neither verdict nor values and that a "
             "comment immediately before a scalar assignment becomes its annotation; all behaviours are replayed with annotation "
             "support on and off and tree + annotations compared.",
        note="Bounded token count; annotations that the statement leaves open (comment before a section, function or brace-less list) are wildcards in the spec and not compared."),
    "C12": dict(
        cat="model_checking", ref="7/C12",
        text="The token alphabet contains an undeclared name at every nesting level; TLC enumerates every token order up to the bound "
             "with CFGF_IGNORE_UNKNOWN and checks that the state machine agrees with the reference meaning in which a well-formed "
             "undeclared item (assignment, list, append, call, plain or titled section with nested content) is skipped without effect, "
             "that accepted texts are silent, and that the same text without the flag is rejected with a diagnostic exactly when it "
             "contains an undeclared item. Every behaviour is replayed; tree, return code, diagnostics, heap/descriptor balance compared.",
        note="Bounded token count (nesting of unknown sections up to the bound); malformed undeclared items are outside the statement "
             "and only checked for crashes/leaks. The 10^5-deep stress instance lives in C02."),
    "C14": dict(
        cat="model_checking", ref="7/C14",
        text="Schema with value-parsing, validation and function callbacks on a scalar, a list, a multi section and a function, plus "
             "pointer options. For every token sequence up to the bound and every choice of the single failing invocation TLC checks "
             "that the verdict binds (nothing is invoked or applied after the failing call), that stored values are the callback's "
             "products and that validation sees the value just stored. Replay compares the real callback log (kind, option, decoded "
             "text / argv, visible values) entry by entry, plus tree and return code, also after the rejection.",
        note="Bounded; the pre-set validation callback of the by-name setters (veto/rewrite) is exercised by the C10 check."),
    "C07": dict(
        cat="model_checking", ref="7/C07",
        text="Ledger part of the spec: every store operator that drops values reports the user pointers it lets go of; TLC checks "
             "that a pointer is released at most once and never while still stored, on every token sequence (= every cut/corruption "
             "point) up to the bound with callbacks failing at every position. Replay checks the release-callback log against the "
             "spec per call and at cfg_free, live heap blocks / open streams / descriptors back to their start values, ASan/UBSan clean.",
        note="Heap-level double free / use after free is the sanitizer's verdict on the enumerated histories, not TLC's. API-sequence histories "
             "(setters, section add/remove, search path) are covered by the C09 check's balance aspect."),
    "C09": dict(
        cat="model_checking", ref="7/C09",
        text="Api.tla gives every setter / list / bulk-set / set-from-text / annotation / titled-add / remove call as an operation on "
             "the abstract store. TLC explores the state graph of the store under ~57 call instances (including wrong type, index "
             "beyond a scalar, unknown name, section-relative calls) from the initial state and from a parsed state, checking as "
             "action properties on every transition: append keeps the old values (defaults included) as prefix, removal keeps order, "
             "titles stay unique, bad calls fail, successful setters mark the option modified, the pointer ledger balances. Every "
             "transition is replayed (after a shortest path to its pre-state); return value, full tree, modified mark, released "
             "pointers and heap balance are compared, also through the cfg_opt_* forms of the calls. Long random call sequences on "
             "random schemas are recorded and validated against the specification (Trace_Conf.tla).",
        note="Bounded depth; outcomes the statement leaves open (index beyond the end of a list, indexed write into a list that still holds "
             "pristine defaults, zero-length list set) are 'unspec' in the spec and not compared; annotations / default marker are not compared here (C10 does)."),
    "C10": dict(
        cat="model_checking", ref="7/C10",
        text="Same state graph; the action property 'a failing call leaves the store (values, count, order, annotation, default and "
             "modified markers) unchanged' is checked by TLC on every transition. Every transition whose call is refused (bulk set "
             "with an unconvertible element at each position, by-name setter vetoed by the pre-set validation callback, wrong type, "
             "illegal index, existing title, missing section, unconvertible set-from-text) is replayed and the driver's complete dump "
             "of the context (values, nvalues, comment, RESET/MODIFIED bits) before and after the call must be identical.",
        note="Option states are those reachable within the depth bound from the initial and a parsed state (pristine, set, emptied, annotated, lists of n)."),
    "C19": dict(
        cat="model_checking", ref="7/C19",
        text="Printer.tla gives cfg_print / cfg_print_indent / cfg_opt_print(_indent) as a function from the store to line records. "
             "TLC enumerates 4032 combinations (filter from three name predicates or none at each of four nesting levels x every "
             "subset of four options with a print callback x seven entry points) and checks the declarative reading of the statement: "
             "the printed heads equal, per section instance, the declared options accepted by the nearest enclosing filter, once, in "
             "order, at the instance's depth; open/close nesting; unset scalars commented out; callback output for exactly the chosen "
             "options. Every combination is replayed with real filter and print callbacks and the text compared line by line.",
        note="One populated three-level schema; exhaustive over the listed filter/callback/entry-point space."),
    "C05": dict(
        cat="model_checking", ref="7/C05",
        text="On every state of the API model's state graph (printable option kinds, strings and titles with quotes, backslashes, '$', "
             "comment markers) TLC checks that the printed configuration, read as the token sequence the scanner will see, is accepted "
             "and denotes the same sections, titles, list lengths, values and annotations, and prints identically again. Each "
             "transition is replayed with a real print -> parse into a fresh context -> tree comparison -> print -> parse -> print cycle, "
             "and the first text is also compared with the specification's.",
        note="Token-level in TLC; byte-level fidelity of the string encoder against the scanner is checked in the C03 model and by the "
             "replayed real round trip. A NULL string assigned through the API has no spelling in the language and is excluded."),
    "C02": dict(
        cat="model_checking", ref="7/C02",
        text="Lexer.tla models every flex rule of lexer.l as a match-length operator with flex's selection (longest match, first rule "
             "on ties, default rule = echo to stdout). TLC enumerates every byte string up to the bound over the class representatives "
             "of each start condition and checks totality (the default rule is never taken: nothing is echoed), progress (every step "
             "consumes input, so the scan terminates) and that scanner+parser composed return a verdict. All strings are replayed "
             "under ASan/UBSan with stdout captured, followed by print, a second parse and free on the same context. The parser "
             "model's error behaviours (every cut/corruption of every short text) and ~560 parametric stress instances (10^5-deep "
             "nesting, 10^5..10^6-byte tokens in every lexical form, huge lists, directories / missing files / self-include as targets, "
             "every unterminated construct, every single byte) complete the check.",
        note="Memory safety is the sanitizers' verdict on the explored inputs, not TLC's; no coverage-guided mutation (different technique "
             "family); bounded string length over byte-class representatives (one concrete byte per class, plus a seeded second member for the 'plain' class)."),
    "C03": dict(
        cat="model_checking", ref="7/C03",
        text="LexRef in Lexer.tla is the declarative reading of the statement (escape table, maximal digit run = 1-3 octal digits <= 0xFF, "
             "1-2 hex digits, continuation lines, ${NAME} / ${NAME:-default} in unquoted and double-quoted context only, unterminated "
             "single-quoted strings rejected). TLC checks on every literal up to the bound that the rule-level machine (overlapping flex "
             "rules under longest match) decodes exactly that, that '$' is inert inside single quotes and that comment bodies never "
             "yield a value. Each literal is replayed as 's=<literal>' with the environment realised by setenv/unsetenv and the value "
             "of s compared byte for byte.",
        note="Bounded literal length over class representatives; NUL escapes and unterminated double-quoted strings / comments are outside the "
             "statement (both outcomes tolerated, no trace may be left: see C08)."),
    "C04": dict(
        cat="model_checking", ref="7/C04",
        text="Numeral.tla holds the reference grammar (radix by prefix, at least one digit, whole token, range of long by digit-string "
             "comparison, C99 float syntax, the six boolean words) and an operational model of the conversion in cfg_setopt including "
             "strtol's own leniencies (white space, sign, second prefix). TLC checks on every token up to the bound that the guarded "
             "conversion accepts exactly the reference language with the same number, and - as a vacuity witness - that the unguarded one "
             "does not. Every token, plus boundary values around LONG_MIN/LONG_MAX in four radixes and DBL_MAX, is replayed through the "
             "parser, cfg_setopt and cfg_setmulti with ambient errno 0 / ERANGE / EINVAL and the stored value compared exactly.",
        note="The numeric value of a double is compared against Python's correctly rounded conversion, not computed in TLA+ (no floating point "
             "there); sign before a radix prefix, inf/nan and underflow are left open by the statement and tolerated either way."),
    "C11": dict(
        cat="model_checking", ref="7/C11",
        text="PathRes.tla has the path mini-language twice: an operational resolver shaped like cfg_getopt_secidx/parse_title and a "
             "reference that splits by the grammar and walks one level at a time. TLC checks agreement, first-instance semantics and that "
             "every generated path resolves, on all byte strings up to the bound over the path alphabet and on ~850 paths enumerated from a "
             "four-level tree with their systematic breakages. Every path is replayed: cfg_getopt / cfg_getsec results are located in the "
             "real tree by pointer identity and compared with the stepwise location; by-path getter, setter and cfg_rmsec effects are "
             "checked against the tree dump.",
        note="One hand-built tree (nested multi, titled with quote/backslash/numeric titles, single sections); doubled separators and "
             "non-decimal indices are left open by the statement ('unspec', not compared)."),
    "C13": dict(
        cat="model_checking", ref="7/C13",
        text="Parser.tla models include(): the included file's tokens are read in place with the including source's (file, line) "
             "saved and restored, at most ten files open, any failure aborting (and unwinding) the whole parse. TLC enumerates main "
             "texts over an alphabet with the include function and the names of a fixed file system (plain, nested, section re-opening, "
             "failing, self-including, chains of 10 and 11, directory, missing) and checks flattening equivalence, position "
             "restoration, reported failures and the depth limit. Behaviours are replayed on a real directory tree: tree, return "
             "code, first diagnostic's file and line, descriptor and include-stack balance; plus 12 failing includes followed by "
             "succeeding ones, and resolution through the search path.",
        note="Files hold complete items (a file ending inside a section body is outside the enumerated space); unreadable files cannot be "
             "produced as root and are not covered; FIFOs are not used (opening one blocks)."),
    "C17": dict(
        cat="model_checking", ref="7/C17",
        text="SearchPath.tla: reference resolution (first directory in add order holding a regular file; absolute names bypass; "
             "directories and missing files never match) against the operational prepend + oldest-first recursion, and tilde expansion "
             "over a password-database model. TLC checks agreement on every search-path sequence up to the bound x placements of a "
             "same-named file / directory x eight names. Behaviours are replayed on a real tree: cfg_searchpath results and which "
             "file's marker value cfg_parse and include() read; twelve tilde forms through cfg_tilde_expand / cfg_add_searchpath "
             "under ASan and under valgrind (uninitialised-memory clause).",
        note="Depends on the sandbox accounts (root:/root, nobody:/nonexistent, no 'nouser'), verified at run time; the valgrind part is an "
             "instrumentation verdict, not TLC's."),
    "C08": dict(
        cat="model_checking", ref="7/C08",
        text="MC_Scan composes Lexer.tla and Parser.tla at byte level with the process-global scanner state (start condition, open "
             "include levels) as a variable shared by two contexts. TLC enumerates histories of events (accepted parse; aborted inside "
             "a double-quoted / single-quoted string, a comment, on a bad escape, inside an included file, by the depth limit; "
             "accepted include; free + re-create) on both contexts and checks that the scanner is clean at every call boundary, that "
             "probe parses equal their fresh-process result, and that contexts do not influence each other; a model of the unrepaired "
             "scanner violates the invariant (vacuity witness). Histories and probes are replayed in one process and compared step by step.",
        note="The 'failed a range check' event needs typed options and is covered at token level (pairs of texts parsed into one context) "
             "because the byte-level composition carries string options only."),
    "C16": dict(
        cat="model_checking", ref="7/C16",
        text="MC_Own: two contexts built from the same declarations; every interleaving (to the bound) of parses that create nested "
             "multi-section instances and free-form keys, setters, annotations, titled add/remove, callback registration on an option "
             "and on a section template, and writes into one of two sibling instances. TLC checks that each context equals the result of "
             "its own operations alone, that an operation never changes the other context, and that sibling instances are independent. "
             "In the replay the caller's declaration arrays and every string in them are overwritten with 0xA5 and freed right after "
             "the second cfg_init, so ASan reports any later read; both trees are compared with the specification after every step.",
        note="The specification never reads the declarations after Init by construction; the binding of that claim to the code is the "
             "poison-and-free replay under ASan. CFG_SIMPLE_* options share a caller variable by design and are not part of this model."),
    "C18": dict(
        cat="fault_enumeration", ref="7/C18",
        text="Workloads are behaviours of the specification covering the public entry points (every successful API transition of the "
             "API model from two states, the longest accepted and rejected texts of the parser / callback / include models, cfg_init "
             "for each schema, search path, tilde, file parse, include, annotation, by-path lookup, print). For each workload, every k "
             "up to the number of allocation requests confuse.c issues during the target call is enumerated: the k-th request returns "
             "NULL (force-included allocation shim). Oracle: the process survives under ASan/UBSan; the call returns a failure code, or "
             "success together with the specification's complete post-state; the context prints and frees; heap blocks, descriptors "
             "and the include stack return to their start values.",
        tech="fault enumeration (k-th allocation fails, exhaustive over k) over workloads exported from the TLA+ models, with the specification's post-state as oracle",
        note="Scanner-internal (flex) allocations are out of scope as the property says; what a failed call leaves behind is only required to be "
             "consistent and releasable, not equal to the pre-state."),
}

# what later rounds added to each check (kept apart from the original description above)
ADDED = {
    "C01": "Later additions: schemas for caller-owned variables (CFG_SIMPLE_*), for declared sections inside a free-form section, "
           "for consecutive list assignments; recorded executions use all three parse entry points.",
    "C02": "Later additions: stress instances for included files that end inside a comment or string while the including text goes on, "
           "and for strings on the growth steps of the scanner's scratch buffer (values compared).",
    "C03": "Later additions: ${...} bodies, slashes next to comment markers, octal forms with a closing quote, strings on the scratch-buffer growth steps.",
    "C05": "Later additions: caller-owned variables (a second context gets its own variables), a titled single section, the ends of the range of long, "
           "every ordered pair of scanner-relevant bytes (CR LF, backslash newline, ...), states reached by parsing.",
    "C06": "Later additions: the rejected texts again after an empty text parsed through a different entry point (file -> buffer, buffer -> stream, "
           "stream -> file); the scanner-level line counter; include trees.",
    "C07": "Later additions: API histories and titled-section replacement on a context with a search path; the include model's and the file-name "
           "resolution model's balance aspects.",
    "C08": "Later additions: predicted diagnostic lines, every history also through cfg_parse_fp, an assignment that stops before its first value "
           "followed by an append, and re-entrant parsing (MC_Nest: a function callback parses into the second context while the first parse runs).",
    "C09": "Later additions: caller-owned variables, titles differing in case, list calls on sections, bare radix prefixes.",
    "C10": "Later additions: the same on caller-owned variables; set-from-text through the parser.",
    "C11": "Later additions: titles containing '=', a backslash before an ordinary character in quoted qualifiers, emptied / junk qualifiers, 2^32 indices.",
    "C12": "Later additions: deprecation notices are counted by the model (exact number of diagnostics of an accepted text), deprecated options at top "
           "level, path-like undeclared names, free-form sections, annotation support together with ignore-unknown.",
    "C13": "Later additions: include declared inside a section, relative names through the search path, multi sections with parsed list defaults inside "
           "included files, and re-entrant parsing from inside an included file (MC_Nest).",
    "C14": "Later additions: callbacks on deprecated / dropped options; veto and rewrite by the pre-set validation callback on int, string and float "
           "options; re-entrant parsing (a nested text calls a function while the outer call's arguments are pending).",
    "C15": "Later additions: annotations next to long quoted values and on lists; the annotation round trip (print -> parse -> compare) with annotation "
           "texts touching the comment brackets.",
    "C16": "Later additions: three instances created at once and removal, a titled instance filled and opened again, a single section removed and re-opened.",
    "C17": "Later additions: the working directory is part of the model (a relative name that exists there but in no search directory).",
    "C18": "Later additions: workloads with free-form sections, bulk set on an annotated option, list setters with several elements.",
    "C19": "Later additions: caller-owned variables, a print callback on an unset scalar, filters installed before the sections exist, starting indentation 9 and 12.",
}
for _k, _v in ADDED.items():
    CHECKS[_k]["text"] += " " + _v

PENDING = {
}

ALL = ["C%02d" % i for i in range(1, 20)]


def main():
    checks = []
    for pid in ALL:
        if pid not in CHECKS:
            continue
        c = CHECKS[pid]
        checks.append({
            "property_id": pid,
            "quick_cmd": "bin/check %s quick" % pid,
            "thorough_cmd": "bin/check %s thorough" % pid,
            "evidence_file": "evidence/%s.json" % pid,
            "replay_cmd_template": "bin/check --replay {path}",
            "engine": "tlc+driver",
            "level_claimed": {"category": c["cat"], "text": c["text"], "design_ref": "DESIGN.md section " + c["ref"]},
            "level_note": c["note"],
            "technique": c.get("tech", TECH),
        })
    na = [{"property_id": p, "reason": PENDING.get(p, "specification and conformance check for this property are still under construction; not claimed yet")}
          for p in ALL if p not in CHECKS]
    m = {
        "version": 1,
        "setup_cmd": "bin/setup",
        "hooks": {
            "guard": "LIBCONFUSE_VERIF",
            "enable": "no source hook is needed: every observation goes through the public API; the library files are compiled "
                      "with the force-included harness/alloc_shim.h (counting / failable allocator), which touches nothing in /repo",
            "baseline_off_cmd": "make -C /repo check",
            "source_commits": [],
            "add_only": True,
        },
        "engines": [
            {"name": "tlc+driver", "path": "bin/check", "serves_properties": [c["property_id"] for c in checks],
             "kind_free_text": "TLA+ specification (spec/*.tla) model-checked with TLC; behaviours exported by TLC are replayed through "
                               "harness/driver.c linked against the library built from /repo's working tree (clang ASan+UBSan); "
                               "recorded executions are validated against the trace specifications"},
        ],
        "checks": checks,
        "not_applicable": na,
        "notes": "See DESIGN.md. KNOWN_FINDINGS.txt lists repaired ('fixed:') and recorded ('known:') genuine defects.",
    }
    with open(os.path.join(VERIF, "MANIFEST.json"), "w") as f:
        json.dump(m, f, indent=1)
    print("MANIFEST.json: %d checks, %d not_applicable" % (len(checks), len(na)))


if __name__ == "__main__":
    main()
