"""Leg A for MC_Path (C11): by-path lookups against stepwise locations."""
import json
from .core import enc, run_behaviours, ModelError
from .render import quote_dq

FL = {"MULTI": 1, "TITLE": 8, "NODEFAULT": 16}


def b2s(x):
    return "".join(chr(c) for c in x)


def schema_from_tree(sec, lines):
    for o in sec["opts"]:
        name = enc(b2s(o["name"]))
        if o["type"] == "sec":
            lines.append("o sec %s %d 0" % (name, sum(FL[f] for f in o["flags"])))
            schema_from_tree(o["vals"][0], lines)
            lines.append("e")
        else:
            lines.append("o str %s 0 0 dflt" % name)


def text_from_tree(sec, ind=0):
    out = []
    for o in sec["opts"]:
        n = b2s(o["name"])
        if o["type"] == "sec":
            for inst in o["vals"]:
                t = (" " + quote_dq(b2s(inst["title"]))) if "TITLE" in o["flags"] else ""
                out.append("%s%s%s {" % ("  " * ind, n, t))
                out += text_from_tree(inst, ind + 1)
                out.append("%s}" % ("  " * ind))
        else:
            out.append("%s%s = %s" % ("  " * ind, n, quote_dq(b2s(o["vals"][0]))))
    return out


def loc_str(r):
    if r["kind"] == "none":
        return None
    s = "".join("%d/%d/" % (l["oi"] - 1, l["ii"] - 1) for l in r["loc"])
    if r["kind"] == "opt":
        return s + "%d" % (r["oi"] - 1)
    return s


def value_at(tree, r):
    sec = tree
    for l in r["loc"]:
        sec = sec["opts"][l["oi"] - 1]["vals"][l["ii"] - 1]
    return sec["opts"][r["oi"] - 1]


def replay(verdict, exe, res, seed=0, tag="path", sigprefix="path", group=40, mutate=False, ctxflags=0):
    tree = res.extra["TREE"][0]
    sl = ["schema S"]
    schema_from_tree(tree, sl)
    sl.append("endschema")
    text = "\n".join(text_from_tree(tree)) + "\n"
    behs = res.behaviours
    scripts, meta = [], {}
    groups = [behs[i:i + group] for i in range(0, len(behs), group)] if not mutate else [[b] for b in behs]
    for n, grp in enumerate(groups):
        lines = list(sl) + ["init c1 S %d" % ctxflags, "parsebuf c1 %s" % enc(text), "dump 0"]
        for b in grp:
            p = enc(b2s(b["path"]))
            lines += ["getopt c1 %s" % p, "getsec c1 %s" % p, "get c1 str %s 0" % p]
        if mutate:
            p = enc(b2s(grp[0]["path"]))
            lines += ["dump 1", "obs c1", "setstr c1 %s 0 NEW" % p, "rmsec c1 %s" % p]
        lines.append("free c1")
        bid = "g%d" % n
        scripts.append((bid, "\n".join(lines)))
        meta[bid] = grp
    results = run_behaviours(exe, scripts, tag, chunk=100)
    nontriv = 0
    for bid, grp in meta.items():
        g = results.get(bid)
        if g is None:
            raise ModelError("no output")
        if g["crash"]:
            k = len([l for l in g["lines"] if l["cmd"] == "getopt"])
            culprit = b2s(grp[min(k, len(grp)) - 1]["path"]) if grp else "?"
            verdict.violation("%s:%s:%s" % (sigprefix, g["crash"]["kind"], repr(culprit)),
                              "%s while resolving path %r :: %s" % (g["crash"]["kind"], culprit, g["crash"]["detail"][:1200]), {"paths": [b2s(b["path"]) for b in grp]})
            continue
        go = [l for l in g["lines"] if l["cmd"] == "getopt"]
        gs = [l for l in g["lines"] if l["cmd"] == "getsec"]
        gv = [l for l in g["lines"] if l["cmd"] == "get"]
        for b, lo, ls, lv in zip(grp, go, gs, gv):
            verdict.cov["traces_validated_against_impl"] += 1
            ps = b2s(b["path"])
            probs = []
            if b["opt"]["kind"] != "unspec":
                want = loc_str(b["opt"])
                if lo["ret"] != want:
                    probs.append("cfg_getopt addresses %r, stepwise navigation reaches %r" % (lo["ret"], want))
                if b["opt"]["kind"] == "opt":
                    nontriv += 1
                    o = value_at(tree, b["opt"])
                    if o["type"] == "str" and lv["ret"] != b2s(o["vals"][0]):
                        probs.append("cfg_getnstr by path returned %r, the addressed option holds %r" % (lv["ret"], b2s(o["vals"][0])))
                elif lv["ret"] is not None:
                    probs.append("cfg_getnstr on an unresolved path returned %r" % lv["ret"])
            if b["sec"]["kind"] != "unspec":
                want = loc_str(b["sec"])
                if ls["ret"] != want:
                    probs.append("cfg_getsec addresses %r, stepwise navigation reaches %r" % (ls["ret"], want))
                if b["sec"]["kind"] == "sec":
                    nontriv += 1
            if probs:
                verdict.violation("%s:%s" % (sigprefix, repr(ps)), "path %r :: %s" % (ps, "; ".join(probs)), {"path": ps, "expected": b})
        if mutate:
            b = grp[0]
            ps = b2s(b["path"])
            before = [l for l in g["lines"] if l["cmd"] == "obs"][0]["ctx"]["c1"]
            st = [l for l in g["lines"] if l["cmd"] == "setstr"][0]
            rm = [l for l in g["lines"] if l["cmd"] == "rmsec"][0]
            probs = []
            if b["opt"]["kind"] == "none":
                if st["ret"] != -1 or json.dumps(st["ctx"]["c1"], sort_keys=True) != json.dumps(before, sort_keys=True):
                    probs.append("cfg_setstr on an unresolved path returned %d / changed the configuration" % st["ret"])
            if b["sec"]["kind"] == "none":
                if rm["ret"] != -1 or json.dumps(rm["ctx"]["c1"], sort_keys=True) != json.dumps(st["ctx"]["c1"], sort_keys=True):
                    probs.append("cfg_rmsec on an unresolved path returned %d / changed the configuration" % rm["ret"])
            if b["sec"]["kind"] == "sec":
                # the addressed instance, and only it, is gone
                sec = st["ctx"]["c1"]
                for l in b["sec"]["loc"][:-1]:
                    sec = sec["o"][l["oi"] - 1]["v"][l["ii"] - 1]
                last = b["sec"]["loc"][-1]
                beforev = sec["o"][last["oi"] - 1]["v"]
                sec2 = rm["ctx"]["c1"]
                for l in b["sec"]["loc"][:-1]:
                    sec2 = sec2["o"][l["oi"] - 1]["v"][l["ii"] - 1]
                afterv = sec2["o"][last["oi"] - 1]["v"]
                want = beforev[:last["ii"] - 1] + beforev[last["ii"]:]
                if rm["ret"] != 0 or json.dumps(afterv, sort_keys=True) != json.dumps(want, sort_keys=True):
                    probs.append("cfg_rmsec(%r) returned %d and did not remove exactly the addressed instance" % (ps, rm["ret"]))
            if probs:
                verdict.violation("%s:mut:%s" % (sigprefix, repr(ps)), "path %r :: %s" % (ps, "; ".join(probs)), {"path": ps})
    verdict.cov["evaluations"] += len(behs)
    verdict.cov["distinct_nontrivial"] += nontriv
    for b in behs[:3]:
        verdict.sample({"path": b2s(b["path"]), "expected_option": loc_str(b["opt"]) if b["opt"]["kind"] != "unspec" else "unspec"})
