"""Leg A for MC_Print (C19): filters / print callbacks / entry points."""
from .core import enc, run_behaviours, ModelError, FLAGBITS
from .render import schema_lines, render_tokens

TARGET = {"root": "print c1", "rootind": "print c1 2", "sec": "print c1#7/0 1",
          "opt:l": "optprint c1 l 0", "opt:sec": "optprint c1 sec 1", "opt:t": "optprint c1 t 0",
          "opt:nd": "optprint c1 nd 0", "sec9": "print c1#7/0 9", "opt:sec12": "optprint c1 sec 12"}


def replay(verdict, exe, res, seed=0, tag="print", sigprefix="print"):
    schema = res.schemas[1]
    pretext = render_tokens(res.extra["PRETOKS"][0])
    hide = res.extra["HIDE"][0]
    scripts, meta = [], {}
    for n, b in enumerate(res.behaviours):
        s = b["setup"]
        lines = schema_lines("S", schema)
        for k, names in enumerate(hide):
            lines.append("filterdef %d %s" % (k + 1, enc(",".join(sorted(names)))))
        lines.append("init c1 S %d" % FLAGBITS["COMMENTS"])
        # every other behaviour: a filter is installed on the root BEFORE the sections are created and is
        # replaced / removed afterwards - to the specification that is the same state
        pre = (n % 2 == 1)
        if pre:
            lines.append("filter c1 2")
        lines.append("parsebuf c1 %s" % enc(pretext))
        lines.append("dump 0")
        if pre and not s["froot"]:
            lines.append("filter c1 -1")
        for where, key in (("c1", "froot"), ("c1#7/0", "fsec"), ("c1#7/0/2/0", "fsub"), ("c1#8/0", "ft1")):
            if s[key]:
                lines.append("filter %s %d" % (where, s[key]))
        for cb in sorted(s["cbs"]):
            lines.append("printfunc c1 %s 1" % enc(cb))
        lines.append(TARGET[s["target"]])
        lines.append("free c1")
        bid = "p%d" % n
        scripts.append((bid, "\n".join(lines)))
        meta[bid] = b
    results = run_behaviours(exe, scripts, tag)
    distinct = set()
    for bid, b in meta.items():
        g = results.get(bid)
        s = b["setup"]
        desc = ("prefiltered; " if int(bid[1:]) % 2 == 1 else "") + "filters root=%d sec=%d sub=%d t1=%d cbs=%s target=%s" % (s["froot"], s["fsec"], s["fsub"], s["ft1"], ",".join(sorted(s["cbs"])), s["target"])
        verdict.cov["traces_validated_against_impl"] += 1
        if g is None:
            raise ModelError("no output for %s" % bid)
        if g["crash"]:
            verdict.violation("%s:%s:%s" % (sigprefix, g["crash"]["kind"], desc), "%s :: %s" % (desc, g["crash"]["detail"][:1500]), {"behaviour": b})
            continue
        pl = [l for l in g["lines"] if l["cmd"] in ("print", "optprint")]
        if len(pl) != 1:
            raise ModelError("expected one print observation")
        text = pl[0]["text"]
        got = text.split("\n")
        if got and got[-1] == "":
            got.pop()
        distinct.add("\n".join(b["lines"]))
        from .printnorm import same, first_diff
        if not same(b["lines"], got):
            k = first_diff(b["lines"], got)
            verdict.violation("%s:text:%s" % (sigprefix, desc),
                              "%s :: printed text differs at line %d: expected %r observed %r" % (
                                  desc, k + 1, b["lines"][k] if k < len(b["lines"]) else "<end>", got[k] if k < len(got) else "<end>"),
                              {"behaviour": b, "observed": got})
        if pl[0]["out"] != g["begin"]["out"]:
            verdict.violation("%s:stdout:%s" % (sigprefix, desc), "%s :: stray output" % desc, {"behaviour": b})
    verdict.cov["evaluations"] += len(meta)
    verdict.cov["distinct_nontrivial"] += len(distinct)
    for bid in list(meta)[:2]:
        verdict.sample({"setup": meta[bid]["setup"], "expected_lines": meta[bid]["lines"]})
