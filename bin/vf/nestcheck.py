"""Leg A for MC_Nest: re-entrant parsing.  The model's files become real files, its named texts
are handed to the driver ('text' command); the driver's function callback for 'ev' parses the named
text into the second context c2 while the parse of c1 is running."""
from .core import enc, ModelError
from .render import render_tokens, cmp_sec
from . import parsecheck


def setup_lines(fs):
    lines = []
    for name, ent in sorted(fs.items()):
        if ent["kind"] == "file":
            lines.append("fs file %s %s" % (enc(name), enc(render_tokens(ent["toks"]))))
        elif ent["kind"] == "text":
            lines.append("text %s %s" % (enc(name), enc(render_tokens(ent["toks"]))))
        else:
            lines.append("fs dir %s" % enc(name))
    lines.append("init c2 S 0")
    return lines


def aux_check(b, g, plines):
    """the second context holds exactly what the nested parses put there; each nested parse ended as predicted"""
    exp = b["parses"][-1]["exp"]
    if exp["status"] not in ("ok", "fail") or not plines:
        return []
    line = plines[-1]
    out = []
    d = []
    cmp_sec(exp["aux"], line["ctx"].get("c2"), "", d, {"mod": "nonsec", "cmt": False})
    out += [("aux", "second context: " + x) for x in d[:3]]
    want = [0 if e["status"] == "ok" else 1 for e in exp["auxlog"]]
    got = [n["ret"] for n in line.get("nested", [])]
    if want != got:
        out.append(("nested", "nested parses returned %r, expected %r" % (got, want)))
    wd = sum(int(e["ndiag"]) for e in exp["auxlog"])
    if (wd == 0) != (line.get("ndiag_nested", 0) == 0):
        out.append(("nested", "nested parses delivered %d diagnostic(s), expected %s" % (line.get("ndiag_nested", 0), "none" if wd == 0 else "some")))
    return out


def replay(verdict, exe, res, seed=0, tag="nest"):
    import copy
    fs = res.extra["FS"][0]
    selfish = lambda b: any(t["v"] in ("evs", "$R/fs.conf") for t in b["parses"][0]["toks"])
    r1, r2 = copy.copy(res), copy.copy(res)
    r1.behaviours = [b for b in res.behaviours if not selfish(b)]
    r2.behaviours = [b for b in res.behaviours if selfish(b)]
    n = parsecheck.replay(verdict, exe, r1, aspects={"tree", "tree_rejected", "diag", "diagpos", "cb", "balance"}, seed=seed,
                          renderings=("canonical",), tag=tag, extra_before=setup_lines(fs), sigprefix="nested",
                          extra_check=aux_check, pol={"mod": "nonsec", "cmt": False})
    # the context made to parse into itself: the positions reported afterwards are not fixed by the properties
    parsecheck.replay(verdict, exe, r2, aspects={"tree", "diag", "cb", "balance"}, seed=seed,
                      renderings=("canonical",), tag=tag + "self", extra_before=setup_lines(fs), sigprefix="nested-self",
                      extra_check=aux_check, pol={"mod": "nonsec", "cmt": False})
    return n
