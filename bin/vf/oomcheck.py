"""C18: fault enumeration with the specification as oracle.  Workloads are behaviours of the
specification (API transitions of MC_Api, accepted and rejected texts of MC_Parse / MC_Inc,
plus the remaining entry points); for each workload the k-th allocation request issued by
confuse.c during the target call fails, for every k the call can reach."""
import json, re, os
from .core import enc, run_behaviours, ModelError, FLAGBITS, REPO
from .render import schema_lines, render_tokens, cmp_sec, ctx_flags
from .apicheck import call_cmd, OKRET

# driver command -> public entry points it exercises (for the coverage report)
API_OF = {
    "init": ["cfg_init"], "free": ["cfg_free", "cfg_free_value"], "parsebuf": ["cfg_parse_buf", "cfg_parse_fp"],
    "parsefile": ["cfg_parse", "cfg_parse_fp"], "parsefp": ["cfg_parse_fp"],
    "setint": ["cfg_setnint", "cfg_opt_setnint", "cfg_setint"], "setfloat": ["cfg_setnfloat", "cfg_opt_setnfloat", "cfg_setfloat"],
    "setbool": ["cfg_setnbool", "cfg_opt_setnbool", "cfg_setbool"], "setstr": ["cfg_setnstr", "cfg_opt_setnstr", "cfg_setstr"],
    "setlist": ["cfg_setlist"], "addlist": ["cfg_addlist"], "setmulti": ["cfg_setmulti", "cfg_opt_setmulti"],
    "setopt": ["cfg_setopt"], "setcomment": ["cfg_setcomment", "cfg_opt_setcomment"], "addtsec": ["cfg_addtsec"],
    "rmnsec": ["cfg_rmnsec", "cfg_opt_rmnsec"], "rmtsec": ["cfg_rmtsec", "cfg_opt_rmtsec"], "rmsec": ["cfg_rmsec"],
    "getopt": ["cfg_getopt"], "getsec": ["cfg_getsec"], "get": ["cfg_getnstr", "cfg_getnint", "cfg_size", "cfg_getcomment"],
    "print": ["cfg_print", "cfg_print_indent", "cfg_opt_print", "cfg_opt_nprint_var"], "searchpath": ["cfg_add_searchpath", "cfg_tilde_expand"],
    "resolve": ["cfg_searchpath"], "tilde": ["cfg_tilde_expand"], "validate": ["cfg_set_validate_func"],
    "validate2": ["cfg_set_validate_func2"], "printfunc": ["cfg_set_print_func"], "filter": ["cfg_set_print_filter_func"],
    "include": ["cfg_include"], "parsebool": ["cfg_parse_boolean"],
}


def entry_points():
    names = set()
    for ln in open(os.path.join(REPO, "src", "confuse.h")):
        m = re.match(r"\s*DLLIMPORT\s+.*?\b(cfg_\w+)\s*\(", ln)
        if m:
            names.add(m.group(1))
    return names


class Workload:
    def __init__(self, name, setup, target, okret, exp_obs=None, after=None, ctx="c1"):
        self.name, self.setup, self.target, self.okret, self.exp_obs, self.after, self.ctx = name, setup, target, okret, exp_obs, after or [], ctx


def sweep(verdict, exe, workloads, tag="oom", sigprefix="oom"):
    # pass 1: count the allocation requests of each target call
    scripts = []
    for n, w in enumerate(workloads):
        scripts.append(("w%d" % n, "\n".join(w.setup + ["oom 100000000", w.target, "oom 0"] + w.after + ["free c1", "free c2"])))
    res = run_behaviours(exe, scripts, tag + "0", chunk=50)
    counts = {}
    for n, w in enumerate(workloads):
        g = res["w%d" % n]
        if g["crash"]:
            verdict.violation("%s:unarmed:%s" % (sigprefix, w.name), "workload %s fails without any injected failure: %s" % (w.name, g["crash"]["detail"][:600]), {})
            continue
        tl = [l for l in g["lines"] if l.get("allocs") is not None]
        cmdname = w.target.split(" ")[0]
        tline = [l for l in g["lines"] if l["cmd"] == cmdname][-1] if any(l["cmd"] == cmdname for l in g["lines"]) else None
        counts[n] = tline["allocs"] if tline else 0
        if tline is not None and w.okret is not None and tline["ret"] != w.okret:
            raise ModelError("workload %s: unarmed target returned %r, expected %r" % (w.name, tline["ret"], w.okret))
    # pass 2: every k
    scripts, meta = [], {}
    for n, w in enumerate(workloads):
        for k in range(1, counts.get(n, 0) + 1):
            bid = "w%dk%d" % (n, k)
            lines = w.setup + ["oom %d" % k, w.target, "oom 0", "print %s" % w.ctx if w.ctx else "obs"] + w.after + ["free c1", "free c2"]
            scripts.append((bid, "\n".join(lines)))
            meta[bid] = (w, k)
    results = run_behaviours(exe, scripts, tag, chunk=100)
    total, hit = 0, 0
    fns = {}
    for bid, (w, k) in meta.items():
        g = results.get(bid)
        total += 1
        verdict.cov["traces_validated_against_impl"] += 1
        if g is None:
            raise ModelError("no output")
        cmdname = w.target.split(" ")[0]
        tl = [l for l in g["lines"] if l["cmd"] == cmdname]
        fn = (tl[-1].get("oomfn") if tl else None) or "?"
        if g["crash"]:
            m = re.search(r"VF-OOM-INJECT fn=(\w+)", g["crash"]["detail"])
            fn = m.group(1) if m else "?"
            sym = "abort" if "Parse error in default value" in g["crash"]["detail"] else g["crash"]["kind"]
            verdict.violation("%s:%s:%s:%s:k=%d" % (sigprefix, fn, sym, w.name, k),
                              "workload %s, allocation #%d of the target call fails: %s :: %s" % (w.name, k, g["crash"]["kind"], g["crash"]["detail"][:900]),
                              {"workload": w.name, "k": k, "script": w.setup + [w.target]})
            continue
        line = tl[-1]
        if line["oomhit"]:
            hit += 1
            fns[fn] = fns.get(fn, 0) + 1
        probs = []
        failvals = {0: (1, -1), 1: (0,), }.get(w.okret, ())
        if w.okret is None:
            pass
        elif line["ret"] == w.okret:
            # the call claims to have completed: then it must have its full effect
            if w.exp_obs is not None and w.ctx:
                d = []
                cmp_sec(w.exp_obs, line["ctx"].get(w.ctx), "", d, {"mod": "none", "cmt": False})
                if d:
                    probs.append("call reported success but its effect is incomplete: %s" % "; ".join(d[:2]))
        elif line["ret"] not in failvals:
            probs.append("return value %r is neither success (%r) nor a failure code" % (line["ret"], w.okret))
        if g["end"] and (g["end"]["live"] != g["begin"]["live"] or g["end"]["fds"] != g["begin"]["fds"] or g["end"]["incsp"] != 0):
            probs.append("after cfg_free: %d block(s) still live, descriptors %d->%d, include stack %d" % (
                g["end"]["live"] - g["begin"]["live"], g["begin"]["fds"], g["end"]["fds"], g["end"]["incsp"]))
        if g["end"] and g["end"].get("uptr_lost", 0):
            probs.append("after cfg_free: %d user pointer(s) produced by the value-parsing callback still live (never handed to the release callback)" % g["end"]["uptr_lost"])
        if probs:
            sym = "incomplete-success" if any("effect is incomplete" in p for p in probs) else "leak" if any("still live" in p for p in probs) else "other"
            verdict.violation("%s:%s:%s:%s:k=%d" % (sigprefix, fn, sym, w.name, k),
                              "workload %s, allocation #%d (in %s) of the target call fails: %s" % (w.name, k, fn, "; ".join(probs)),
                              {"workload": w.name, "k": k, "script": w.setup + [w.target], "observed": line})
    verdict.cov["evaluations"] += total
    verdict.cov["distinct_nontrivial"] += hit
    verdict.cov["injected_failures_by_function"] = fns
    for n, w in list(enumerate(workloads))[:: max(1, len(workloads) // 5)][:5]:
        verdict.sample({"workload": w.name, "target_call": w.target[:200], "allocation_requests_in_target": counts.get(n, 0),
                        "failing_k_enumerated": "1..%d" % counts.get(n, 0)})
    return counts


def api_workloads(res, tag):
    from .apicheck import call_cmd
    schema = res.schemas[1]
    pretoks = res.extra.get("PRETOKS", [None])[0]
    pretext = render_tokens(pretoks) if pretoks else None
    out = []
    for n, b in enumerate(res.behaviours):
        if len(b["calls"]) != 1 or b["calls"][0]["exp"]["ret"] != "ok":
            continue
        c = b["calls"][0]["call"]
        setup = schema_lines("S", schema) + ["init c1 S %d" % FLAGBITS["COMMENTS"], "fs dir $R/d1", "searchpath c1 $R/d1"]
        if b.get("pre"):
            setup.append("parsebuf c1 %s" % enc(pretext))
        okv, _ = OKRET.get(c["op"], (0, -1))
        out.append(Workload("%s:%s(%s%s)" % (tag, c["op"], c["name"], "" if not c["sp"] else "@sec"), setup, call_cmd(c, schema), okv,
                            exp_obs=b["calls"][0]["exp"]["obs"]))
    return out


def parse_workloads(res, tag, limit):
    out = []
    behs = [b for b in res.behaviours if len(b["parses"]) == 1]
    behs.sort(key=lambda b: -len(b["parses"][0]["toks"]))
    ok = [b for b in behs if b["parses"][0]["exp"]["status"] == "ok"][:limit]
    bad = [b for b in behs if b["parses"][0]["exp"]["status"] == "fail"][:limit // 2]
    for b in ok + bad:
        pc = b["pcfg"]
        text = render_tokens(b["parses"][0]["toks"])
        setup = schema_lines("S", res.schemas[b["sid"]]) + ["init c1 S %d" % ctx_flags(pc)]
        if "FS" in res.extra:
            from .inccheck import fs_lines
            setup += fs_lines(res.extra["FS"][0])
        st = b["parses"][0]["exp"]["status"]
        out.append(Workload("%s:parse(%s)" % (tag, text[:60]), setup, "parsebuf c1 %s" % enc(text), 0 if st == "ok" else 1,
                            exp_obs=b["parses"][0]["exp"]["obs"] if st == "ok" else None))
    return out


def misc_workloads(schemas):
    out = []
    for name, sl in schemas.items():
        out.append(Workload("init(%s)" % name, sl, "init c1 S 0", 1, ctx="c1"))
        out.append(Workload("init-comments(%s)" % name, sl, "init c1 S %d" % FLAGBITS["COMMENTS"], 1, ctx="c1"))
    base = ["schema S", "o str s 0 0 d", "o str l 2 0 %s" % enc('{"a","b"}'), "o sec m 1 0", "o int x 0 0 5", "e",
            "o func include 0 0 include", "endschema", "init c1 S 0", "fs dir $R/d1", "fs file $R/d1/a.conf %s" % enc('s = "from a"\nm { x = 1 }')]
    out.append(Workload("searchpath-add", base, "searchpath c1 $R/d1", 0))
    out.append(Workload("searchpath-add-tilde", base, "searchpath c1 %s" % enc("~root/x"), 0))
    out.append(Workload("tilde-expand", base, "tilde %s" % enc("~root/some/file"), None, ctx=None))
    out.append(Workload("tilde-expand-plain", base, "tilde %s" % enc("plain/file"), None, ctx=None))
    out.append(Workload("resolve", base + ["searchpath c1 $R/d1"], "resolve c1 a.conf", None, ctx=None))
    out.append(Workload("parsefile", base + ["searchpath c1 $R/d1"], "parsefile c1 a.conf", 0))
    out.append(Workload("parsefile-abs", base, "parsefile c1 $R/d1/a.conf", 0))
    out.append(Workload("parsefp", base, "parsefp c1 %s" % enc("s = x\nl += c"), 0))
    out.append(Workload("include", base + ["searchpath c1 $R/d1"], "parsebuf c1 %s" % enc('include("a.conf")\ns = after'), 0))
    out.append(Workload("setcomment", base, "setcomment c1 s note", 0))
    out.append(Workload("getopt-path", base + ["parsebuf c1 %s" % enc("m { x = 2 }")], "getopt c1 %s" % enc("m=0|x"), None, ctx=None))
    out.append(Workload("getsec-path", base + ["parsebuf c1 %s" % enc("m { x = 2 }")], "getsec c1 %s" % enc("m=0"), None, ctx=None))
    out.append(Workload("rmsec-path", base + ["parsebuf c1 %s" % enc("m { x = 2 } m { x = 3 }")], "rmsec c1 %s" % enc("m=1"), 0))
    out.append(Workload("print", base + ["parsebuf c1 %s" % enc("m { x = 2 }")], "print c1", 0))
    out.append(Workload("reparse", base + ["init c2 S 0", "parsebuf c1 %s" % enc("m { x = 2 }")], "reparse c1 c2", 0, ctx="c2"))
    return out
