"""C05: every single byte 1..255 (and seeded random strings) as a string value, a list
element and a section title: print -> parse into a fresh context -> compare -> print.
The expected printed form comes from the printer model's string encoder (Printer.tla /
Lexer.tla EncodeStr: '"', '\\' and '$' escaped); P_C05_StrRoundTrip (MC_Lex) shows on the
specification that this encoding decodes back to the original bytes."""
import random
from .core import enc, run_behaviours, ModelError

SCHEMA = ["schema S", "o str s 0 0 d", "o str l 2 0 ~", "o sec t 9 0", "o str v 0 0 d", "e", "endschema"]


def encode(s):
    return '"' + "".join("\\" + c if c in '"\\$' else c for c in s) + '"'


def run(verdict, exe, tier, seed, tag="C05bytes"):
    rng = random.Random(seed)
    strings = [chr(c) for c in range(1, 256)]
    strings += [chr(c) + "x" + chr(c) for c in (34, 36, 39, 92, 123, 125, 10, 35, 47, 42)]
    n_rand = 300 if tier == "quick" else 3000
    special = '"\\$\'{}#/*\n\t =,()+' + "".join(chr(c) for c in (1, 127, 128, 255))
    # every ordered pair of the bytes that mean something to the scanner (line ends, quotes, escapes, comment and
    # substitution markers): a pair can be treated differently from its members (CR LF, backslash newline, "${", "*/")
    pairset = '"\\$\'{}#/*\n\r\t ' + ("" if tier == "quick" else "=,()+-0x~")
    strings += [a + b for a in pairset for b in pairset]
    strings += ["a" + a + b + "z" for a in "\r\n\\" for b in "\r\n\\"]
    strings += ["a" + a + b + c + "z" for a in "\r\n\\" for b in "\r\n\\" for c in "\r\n\\"]
    # a control character directly in front of a digit or a letter (whatever the printer does with it must read back)
    strings += [chr(c) + d + " x" for c in list(range(1, 9)) + list(range(14, 32)) + [127] for d in "0789a"]
    for _ in range(n_rand):
        k = rng.randint(1, 8)
        strings.append("".join(rng.choice(special) if rng.random() < 0.6 else chr(rng.randint(1, 255)) for _ in range(k)))
    scripts, meta = [], {}
    for n, s in enumerate(strings):
        lines = list(SCHEMA) + ["init c1 S 0", "setstr c1 s 0 %s" % enc(s), "addlist c1 l str 2 %s %s" % (enc(s), enc("z")),
                                "addtsec c1 t %s" % enc(s), "print c1", "init c2 S 0", "reparse c1 c2", "print c2",
                                "free c2", "free c1"]
        bid = "y%d" % n
        scripts.append((bid, "\n".join(lines)))
        meta[bid] = s
    results = run_behaviours(exe, scripts, tag)
    for bid, s in meta.items():
        g = results.get(bid)
        desc = "string %r" % s
        verdict.cov["traces_validated_against_impl"] += 1
        if g is None:
            raise ModelError("no output")
        if g["crash"]:
            verdict.violation("rtbytes:%s:%s" % (g["crash"]["kind"], desc), "%s :: %s" % (desc, g["crash"]["detail"][:1000]), {"string": [ord(c) for c in s]})
            continue
        pr = [l for l in g["lines"] if l["cmd"] == "print"]
        rp = [l for l in g["lines"] if l["cmd"] == "reparse"][0]
        want = "s=%s\nl = {%s, \"z\"}\nt %s {\n  v=\"d\"\n}\n" % (encode(s), encode(s), encode(s))
        probs = []
        from .printnorm import same
        if "\n" not in s and not same(want.split("\n"), pr[0]["text"].split("\n")) or ("\n" in s and pr[0]["text"] != want):
            probs.append("printed %r, the printer model says %r" % (pr[0]["text"][:120], want[:120]))
        if rp["ret"] != 0:
            probs.append("printed text rejected by the parser: %r" % pr[0]["text"][:120])
        else:
            c2 = rp["ctx"]["c2"]
            got = (c2["o"][0]["v"], c2["o"][1]["v"], [x["t"] for x in c2["o"][2]["v"]])
            if got != ([s], [s, "z"], [s]):
                probs.append("re-parsed value/list/title %r differ from %r" % (got, s))
            if pr[1]["text"] != pr[0]["text"]:
                probs.append("second print differs from the first")
        if probs:
            verdict.violation("rtbytes:%s" % desc, "%s :: %s" % (desc, "; ".join(probs)), {"string": [ord(c) for c in s]})
    verdict.cov["evaluations"] += len(meta)
    verdict.cov["distinct_nontrivial"] += len(meta)
    verdict.sample({"byte_strings": [repr(s) for s in strings[250:262]]})
    float_sweep(verdict, exe, tag)


FLOATS = ["0", "1", "-1", "0.5", "1e-5", "123456.789", "1e15", "1e16", "1e17", "123456789012345678", "5.972e24", "-1e20",
          "1e100", "1.7976931348623157e308", "-1.7976931348623157e308", "4.9e-324", "1e-300"]


def float_sweep(verdict, exe, tag):
    """floats of every magnitude, as a scalar and as list elements: print -> parse -> same value to the printed precision
    (the printer model writes six decimals; the printed text must be a numeral the parser accepts)"""
    schema = ["schema S", "o float f 0 0 1.5", "o float fl 2 0 ~", "endschema"]
    scripts, meta = [], {}
    for n, t in enumerate(FLOATS):
        lines = list(schema) + ["init c1 S 0", "setfloat c1 f 0 %s" % t, "addlist c1 fl float 2 %s 2.5" % t, "print c1",
                                "init c2 S 0", "reparse c1 c2", "print c2", "free c2", "free c1"]
        scripts.append(("fl%d" % n, "\n".join(lines)))
        meta["fl%d" % n] = t
    results = run_behaviours(exe, scripts, tag + "fl")
    for bid, t in meta.items():
        g = results.get(bid)
        desc = "float %s" % t
        verdict.cov["traces_validated_against_impl"] += 1
        if g is None:
            raise ModelError("no output")
        if g["crash"]:
            verdict.violation("rtfloat:%s:%s" % (g["crash"]["kind"], desc), "%s :: %s" % (desc, g["crash"]["detail"][:800]), {"float": t})
            continue
        pr = [l for l in g["lines"] if l["cmd"] == "print"]
        rp = [l for l in g["lines"] if l["cmd"] == "reparse"][0]
        want = "%f" % float(t)
        probs = []
        if ("f=%s" % want) not in pr[0]["text"].replace(" ", ""):
            probs.append("printed %r, six decimals of the value are %s" % (pr[0]["text"][:80], want))
        if rp["ret"] != 0:
            probs.append("printed text rejected by the parser (%s): %r" % ([d["msg"] for d in rp["diag"]][:1], pr[0]["text"][:100]))
        else:
            c2 = rp["ctx"]["c2"]
            got = ["%f" % float.fromhex(x) for x in c2["o"][0]["v"]] + ["%f" % float.fromhex(x) for x in c2["o"][1]["v"]]
            if got != [want, want, "%f" % 2.5]:
                probs.append("re-parsed values %r, printed %r" % (got, want))
            if pr[1]["text"] != pr[0]["text"]:
                probs.append("second print differs from the first")
        if probs:
            verdict.violation("rtfloat:%s" % desc, "%s :: %s" % (desc, "; ".join(probs)), {"float": t})
