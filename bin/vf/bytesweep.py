"""C05: every single byte 1..255 (and seeded random strings) as a string value, a list
element and a section title: print -> parse into a fresh context -> compare -> print.
The expected printed form comes from the printer model's string encoder (Printer.tla /
Lexer.tla EncodeStr: '"', '\\' and '$' escaped); P_C05_StrRoundTrip (MC_Lex) shows on the
specification that this encoding decodes back to the original bytes."""
import random
from .core import enc, run_behaviours, ModelError

SCHEMA = ["schema S", "o str s 0 0 d", "o str l 2 0 ~", "o sec t 9 0", "o str v 0 0 d", "e", "endschema"]


def encode(s):
    return '"' + "".join("\\" + c if c in '"\\$' else c for c in s) + '"'


def run(verdict, exe, tier, seed, tag="C05bytes"):
    rng = random.Random(seed)
    strings = [chr(c) for c in range(1, 256)]
    strings += [chr(c) + "x" + chr(c) for c in (34, 36, 39, 92, 123, 125, 10, 35, 47, 42)]
    n_rand = 300 if tier == "quick" else 3000
    special = '"\\$\'{}#/*\n\t =,()+' + "".join(chr(c) for c in (1, 127, 128, 255))
    # every ordered pair of the bytes that mean something to the scanner (line ends, quotes, escapes, comment and
    # substitution markers): a pair can be treated differently from its members (CR LF, backslash newline, "${", "*/")
    pairset = '"\\$\'{}#/*\n\r\t ' + ("" if tier == "quick" else "=,()+-0x~")
    strings += [a + b for a in pairset for b in pairset]
    strings += ["a" + a + b + "z" for a in "\r\n\\" for b in "\r\n\\"]
    for _ in range(n_rand):
        k = rng.randint(1, 8)
        strings.append("".join(rng.choice(special) if rng.random() < 0.6 else chr(rng.randint(1, 255)) for _ in range(k)))
    scripts, meta = [], {}
    for n, s in enumerate(strings):
        lines = list(SCHEMA) + ["init c1 S 0", "setstr c1 s 0 %s" % enc(s), "addlist c1 l str 2 %s %s" % (enc(s), enc("z")),
                                "addtsec c1 t %s" % enc(s), "print c1", "init c2 S 0", "reparse c1 c2", "print c2",
                                "free c2", "free c1"]
        bid = "y%d" % n
        scripts.append((bid, "\n".join(lines)))
        meta[bid] = s
    results = run_behaviours(exe, scripts, tag)
    for bid, s in meta.items():
        g = results.get(bid)
        desc = "string %r" % s
        verdict.cov["traces_validated_against_impl"] += 1
        if g is None:
            raise ModelError("no output")
        if g["crash"]:
            verdict.violation("rtbytes:%s:%s" % (g["crash"]["kind"], desc), "%s :: %s" % (desc, g["crash"]["detail"][:1000]), {"string": [ord(c) for c in s]})
            continue
        pr = [l for l in g["lines"] if l["cmd"] == "print"]
        rp = [l for l in g["lines"] if l["cmd"] == "reparse"][0]
        want = "s=%s\nl = {%s, \"z\"}\nt %s {\n  v=\"d\"\n}\n" % (encode(s), encode(s), encode(s))
        probs = []
        from .printnorm import same
        if "\n" not in s and not same(want.split("\n"), pr[0]["text"].split("\n")) or ("\n" in s and pr[0]["text"] != want):
            probs.append("printed %r, the printer model says %r" % (pr[0]["text"][:120], want[:120]))
        if rp["ret"] != 0:
            probs.append("printed text rejected by the parser: %r" % pr[0]["text"][:120])
        else:
            c2 = rp["ctx"]["c2"]
            got = (c2["o"][0]["v"], c2["o"][1]["v"], [x["t"] for x in c2["o"][2]["v"]])
            if got != ([s], [s, "z"], [s]):
                probs.append("re-parsed value/list/title %r differ from %r" % (got, s))
            if pr[1]["text"] != pr[0]["text"]:
                probs.append("second print differs from the first")
        if probs:
            verdict.violation("rtbytes:%s" % desc, "%s :: %s" % (desc, "; ".join(probs)), {"string": [ord(c) for c in s]})
    verdict.cov["evaluations"] += len(meta)
    verdict.cov["distinct_nontrivial"] += len(meta)
    verdict.sample({"byte_strings": [repr(s) for s in strings[250:262]]})
