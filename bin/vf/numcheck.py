"""Leg A for MC_Num (C04): every token through the parser, cfg_setopt and cfg_setmulti."""
from .core import enc, run_behaviours, ModelError
from .render import quote_dq

SCHEMA = ["schema S", "o int i 0 0 7", "o float f 0 0 1.5", "o bool b 0 0 0", "o int il 2 0 ~",
          "o float fl 2 0 ~", "o bool bl 2 0 ~", "endschema"]
ERRNOS = [0, 34, 22]

BOUNDARY_INT = [
    ("9223372036854775807", True), ("9223372036854775808", False), ("-9223372036854775808", True),
    ("-9223372036854775809", False), ("+9223372036854775807", True), ("0x7fffffffffffffff", True),
    ("0x8000000000000000", False), ("0x00007fffffffffffffff", True), ("0xFFFFFFFFFFFFFFFF", False),
    ("0777777777777777777777", True), ("01000000000000000000000", False),
    ("0b" + "1" * 63, True), ("0b" + "1" * 64, False), ("0b0" + "1" * 63, True),
    ("99999999999999999999", False), ("1" + "0" * 30, False), ("000000000000000000000000000007", True),
]
BOUNDARY_FLOAT = [
    ("1.7976931348623157e308", True), ("1.7976931348623159e308", False), ("1e999", False), ("-1e999", False),
    ("1e308", True), ("2e308", False), ("0e999", True), ("1.5", True), (".5", True), ("5.", True), ("1e5", True),
    ("0x1p3", True), ("0x1.8p1", True), ("1e", False), ("1e+", False), (".", False), ("", False), (" 1", False),
    ("1 ", False), ("1.5x", False), ("--1", False), ("1.2.3", False), ("0x", False),
]


def pyint(e):
    v = int("".join(chr(c) for c in e["digs"]), e["radix"])
    return -v if e["neg"] else v


def replay(verdict, exe, res, seed=0, tag="num", sigprefix="num"):
    scripts, meta = [], {}
    cases = []
    for b in res.behaviours:
        tok = "".join(chr(c) for c in b["tok"])
        if b["alpha"] == "int":
            e = b["int"]
            cases.append(("int", tok, e["v"], pyint(e) if e["v"] == "ok" else None))
        elif b["alpha"] == "float":
            cases.append(("float", tok, b["float"], None))
        else:
            cases.append(("bool", tok, "ok" if b["bool"] != "bad" else "bad", b["bool"]))
    if any(b["alpha"] == "int" for b in res.behaviours):
        for t, ok in BOUNDARY_INT:
            cases.append(("int", t, "ok" if ok else "bad", int(t, 0 if not t.lstrip("+-").startswith("0") or t.startswith(("0x", "0b")) else 8) if ok else None))
    if any(b["alpha"] == "float" for b in res.behaviours):
        for t, ok in BOUNDARY_FLOAT:
            cases.append(("float", t, "ok" if ok else "bad", None))
    for n, (ty, tok, verdict_exp, val) in enumerate(cases):
        opt = {"int": "i", "float": "f", "bool": "b"}[ty]
        lines = list(SCHEMA) + ["init c1 S 0", "dump 1"]
        en = ERRNOS[n % 3]
        if tok != "":
            lines += ["errno %d" % en, "parsebuf c1 %s" % enc("%s = %s" % (opt, quote_dq(tok)))]
        else:
            lines += ["errno %d" % en, "parsebuf c1 %s" % enc('%s = ""' % opt)]
        lines += ["errno %d" % ERRNOS[(n + 1) % 3], "setopt c1 %s %s" % (opt, enc(tok)),
                  "errno %d" % ERRNOS[(n + 2) % 3], "setmulti c1 %s 1 %s" % (opt, enc(tok))]
        if ty == "int":
            lines += ["errno %d" % en, "setmulti c1 il 2 5 %s" % enc(tok)]
        # the same token as an element of a list option: without braces (assigned, appended) and inside braces
        lopt = {"int": "il", "float": "fl", "bool": "bl"}[ty]
        good = {"int": "5", "float": "2.5", "bool": "yes"}[ty]
        q = quote_dq(tok) if tok != "" else '""'
        lines += ["free c1", "init c1 S 0", "dump 1",
                  "parsebuf c1 %s" % enc("%s = %s" % (lopt, q)),
                  "parsebuf c1 %s" % enc("%s += %s" % (lopt, q)),
                  "parsebuf c1 %s" % enc("%s = {%s, %s}" % (lopt, good, q))]
        lines.append("free c1")
        bid = "n%d" % n
        scripts.append((bid, "\n".join(lines)))
        meta[bid] = (ty, tok, verdict_exp, val)
    results = run_behaviours(exe, scripts, tag)
    nontriv = set()
    for bid, (ty, tok, vexp, val) in meta.items():
        g = results.get(bid)
        desc = "%s token %r" % (ty, tok)
        verdict.cov["traces_validated_against_impl"] += 1
        if vexp == "ok":
            nontriv.add(desc)
        if g is None:
            raise ModelError("no output")
        if g["crash"]:
            verdict.violation("%s:%s:%s" % (sigprefix, g["crash"]["kind"], desc), "%s :: %s" % (desc, g["crash"]["detail"][:1200]), {"token": tok})
            continue
        if vexp == "unspec":
            continue
        opt = {"int": "i", "float": "f", "bool": "b"}[ty]
        default = {"int": "7", "float": 1.5, "bool": False}[ty]
        probs = []
        ninit = 0
        for l in g["lines"]:
            if l["cmd"] == "init":
                ninit += 1
            if ninit > 1:
                break       # (the list-element part is judged below)
            if l["cmd"] not in ("parsebuf", "setopt", "setmulti"):
                continue
            o = [x for x in l["ctx"]["c1"]["o"] if x["n"] == opt][0]
            okret = {"parsebuf": 0, "setopt": 1, "setmulti": 0}[l["cmd"]]
            accepted = l["ret"] == okret
            if l["cmd"] == "setmulti" and any(x["n"] == "il" and len(x["v"]) == 2 for x in l["ctx"]["c1"]["o"]) and "il" in str(l):
                pass
            if accepted != (vexp == "ok"):
                # the il setmulti line is about option il: handled below
                if not (l["cmd"] == "setmulti" and o["v"] == g["lines"][g["lines"].index(l) - 1]["ctx"]["c1"]["o"][["i", "f", "b"].index(opt)]["v"] and False):
                    probs.append("%s %s the token (return %d)" % (l["cmd"], "accepted" if accepted else "rejected", l["ret"]))
                    continue
            if vexp == "ok" and accepted:
                got = o["v"][0] if o["v"] else None
                if ty == "int" and got != str(val):
                    probs.append("%s stored %s, the numeral denotes %d" % (l["cmd"], got, val))
                if ty == "float":
                    want = float.fromhex(tok) if "x" in tok.lower() and "p" in tok.lower() or tok.lower().lstrip("+-").startswith("0x") else float(tok)
                    if float.fromhex(got) != want:
                        probs.append("%s stored %s, the numeral denotes %r" % (l["cmd"], got, want))
                if ty == "bool" and got != (val == "true"):
                    probs.append("%s stored %r, the word denotes %s" % (l["cmd"], got, val))
            if vexp == "bad" and not accepted and l["cmd"] == "parsebuf" and not l["diag"]:
                probs.append("rejected by the parser without a diagnostic")
        lopt = {"int": "il", "float": "fl", "bool": "bl"}[ty]
        pl = [l for l in g["lines"] if l["cmd"] == "parsebuf"]
        for what, l in zip(("assigned without braces", "appended without braces", "inside braces"), pl[-3:] if len(pl) >= 4 else []):
            accepted = l["ret"] == 0
            if accepted != (vexp == "ok"):
                probs.append("as a list element (%s) the token is %s" % (what, "accepted" if accepted else "rejected"))
            elif not accepted and not l["diag"]:
                probs.append("as a list element (%s) rejected without a diagnostic" % what)
            elif accepted:
                lv = [x for x in l["ctx"]["c1"]["o"] if x["n"] == lopt][0]["v"]
                got = lv[-1] if lv else None
                if ty == "int" and got != str(val):
                    probs.append("as a list element (%s) stored %s, the numeral denotes %d" % (what, got, val))
                if ty == "bool" and got != (val == "true"):
                    probs.append("as a list element (%s) stored %r, the word denotes %s" % (what, got, val))
        if probs:
            verdict.violation("%s:%s" % (sigprefix, desc), "%s :: %s" % (desc, "; ".join(probs[:4])), {"token": tok, "expected": vexp})
    verdict.cov["evaluations"] += len(meta)
    verdict.cov["distinct_nontrivial"] += len(nontriv)
    for bid in list(meta)[:4]:
        verdict.sample({"type": meta[bid][0], "token": meta[bid][1], "expected": meta[bid][2]})
