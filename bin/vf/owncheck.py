"""Leg A for MC_Own (C16): two contexts from one set of declarations, which are poisoned
and released right after creation; interleaved operations; every step compares both trees."""
from .core import enc, run_behaviours, ModelError
from .render import schema_lines, render_tokens, cmp_sec
from .apicheck import call_cmd
from .parsecheck import cmp_cblog


def replay(verdict, exe, res, seed=0, tag="own", sigprefix="own"):
    schema = res.schemas[1]
    texts = {k: render_tokens(v) for k, v in res.extra["TEXTS"][0].items()}
    calls = res.extra["CALLS"][0]
    scripts, meta = [], {}
    for n, b in enumerate(res.behaviours):
        lines = schema_lines("S", schema) + ["init c1 S 0", "init c2 S 0 poison"]
        for e in b["hist"]:
            c = "c%d" % e["c"]
            if e["op"] == "parse":
                lines.append("parsebuf %s %s" % (c, enc(texts[e["arg"]])))
            elif e["op"] == "call":
                lines.append(call_cmd(calls[e["arg"]], schema, c))
            else:
                lines.append("validate %s %s 1" % (c, enc(e["arg"])))
        lines += ["free c1", "free c2"]
        bid = "o%d" % n
        scripts.append((bid, "\n".join(lines)))
        meta[bid] = b
    results = run_behaviours(exe, scripts, tag, chunk=300)
    distinct = set()
    for bid, b in meta.items():
        g = results.get(bid)
        desc = "; ".join("c%d:%s(%s)" % (e["c"], e["op"], e["arg"]) for e in b["hist"])
        distinct.add(desc)
        verdict.cov["traces_validated_against_impl"] += 1
        if g is None:
            raise ModelError("no output")
        if g["crash"]:
            verdict.violation("%s:%s:%s" % (sigprefix, g["crash"]["kind"], desc),
                              "declarations poisoned and freed after cfg_init; %s :: %s" % (desc, g["crash"]["detail"][:1200]), {"behaviour": b})
            continue
        lines = [l for l in g["lines"] if l["cmd"] not in ("init", "free")]
        if len(lines) != len(b["hist"]):
            raise ModelError("observation count mismatch")
        for e, line in zip(b["hist"], lines):
            probs = []
            if e["op"] == "parse":
                want = 0 if e["ret"] == "ok" else 1
                if line["ret"] != want:
                    probs.append("parse returned %d, expected %d" % (line["ret"], want))
                d = []
                cmp_cblog(e["cblog"], line["cb"], d)
                probs += d
            elif e["op"] == "call":
                okv, failv = (1, 0) if calls[e["arg"]]["op"] == "addtsec" else (0, -1)
                want = okv if e["ret"] == "ok" else failv
                if line["ret"] != want:
                    probs.append("call returned %d, expected %d" % (line["ret"], want))
            for k in ("1", "2"):
                d = []
                cmp_sec(e["obs"][int(k) - 1] if isinstance(e["obs"], list) else e["obs"][k], line["ctx"].get("c" + k), "c" + k, d,
                        {"mod": "nonsec", "cmt": True})
                probs += d[:2]
            if probs:
                verdict.violation("%s:%s" % (sigprefix, desc), "%s :: at c%d:%s(%s): %s" % (desc, e["c"], e["op"], e["arg"], "; ".join(probs[:3])),
                                  {"behaviour": b, "observed": line})
                break
        if g["end"] and g["end"]["live"] != g["begin"]["live"]:
            verdict.violation("%s:balance:%s" % (sigprefix, desc), "%s :: heap blocks not restored" % desc, {"behaviour": b})
    verdict.cov["evaluations"] += len(meta)
    verdict.cov["distinct_nontrivial"] += len(distinct)
    for bid in list(meta)[-2:]:
        verdict.sample({"interleaving": ["c%d:%s(%s)" % (e["c"], e["op"], e["arg"]) for e in meta[bid]["hist"]]})
