"""Leg A for the API-level model (MC_Api): replay exported transitions."""
import json
from .core import enc, run_behaviours, ModelError, FLAGBITS
from .render import schema_lines, render_tokens, cmp_sec, NULL

OKRET = {"addtsec": (1, 0), "setopt": (1, 0)}


def opt_type(schema, sp, name):
    decls = schema
    for st in sp:
        decls = decls[st["oi"] - 1]["sub"]
    for d in decls:
        if d["name"] == name:
            return d["type"]
    return "int"


def ctxspec(sp, ctx="c1"):
    if not sp:
        return ctx
    return ctx + "#" + "/".join("%d/%d" % (s["oi"] - 1, s["ii"] - 1) for s in sp)


def call_cmd(c, schema, ctx="c1"):
    op, cs, name = c["op"], ctxspec(c["sp"], ctx), enc(c["name"])
    if op in ("setint", "setfloat"):
        return "%s %s %s %d %s" % (op, cs, name, c["idx"], c["val"])
    if op == "setbool":
        return "setbool %s %s %d %d" % (cs, name, c["idx"], 1 if c["val"] == "true" else 0)
    if op == "setstr":
        return "setstr %s %s %d %s" % (cs, name, c["idx"], enc(None if c["val"] == NULL else c["val"]))
    if op in ("setlist", "addlist"):
        ty = opt_type(schema, c["sp"], c["name"])
        if ty not in ("int", "float", "bool", "str"):
            ty = "int"
        vals = []
        for v in c["vals"]:
            if ty == "str":
                vals.append(enc(v))
            elif ty == "bool":
                vals.append("1" if v == "true" else "0")
            else:
                vals.append(v if ty != "str" and v.lstrip("-").replace(".", "").isdigit() else "0")
        return "%s %s %s %s %d %s" % (op, cs, name, ty, len(vals), " ".join(vals))
    if op == "setmulti":
        return "setmulti %s %s %d %s" % (cs, name, len(c["vals"]), " ".join(enc(v) for v in c["vals"]))
    if op == "setopt":
        return "setopt %s %s %s" % (cs, name, enc(c["val"]))
    if op == "setcomment":
        return "setcomment %s %s %s" % (cs, name, enc(None if c["val"] == NULL else c["val"]))
    if op == "addtsec":
        return "addtsec %s %s %s" % (cs, name, enc(None if c["val"] == NULL else c["val"]))
    if op == "rmnsec":
        return "rmnsec %s %s %d" % (cs, name, c["idx"])
    if op == "rmtsec":
        return "rmtsec %s %s %s" % (cs, name, enc(c["val"]))
    raise ModelError("unknown call op %s" % op)


def call_text(c):
    extra = c["val"] if c["op"] not in ("setlist", "addlist", "setmulti") else ",".join(c["vals"])
    return "%s(%s%s,%s%s)" % (c["op"], ctxspec(c["sp"])[2:], c["name"], "%d," % c["idx"] if c["op"].startswith("set") or c["op"] == "rmnsec" else "", extra)


def snapshot_equal(a, b):
    """bit-for-bit equality of two driver tree dumps (values, sizes, flags incl. RESET/MODIFIED, comments)"""
    return json.dumps(a, sort_keys=True) == json.dumps(b, sort_keys=True)


def rt_values(sec, annot=True):
    """what C05 compares: names, titles, sizes, values (floats to printed precision), annotations"""
    if sec is None:
        return None
    out = []
    for o in sec["o"]:
        if o["ty"] == "sec":
            vs = [rt_values(x, annot) for x in o["v"]]
        elif o["ty"] == "float":
            vs = ["%.6f" % float.fromhex(x) for x in o["v"]]
        else:
            vs = o["v"]
        out.append((o["n"], o["ty"], vs, o["c"] if annot else None))
    return (sec["t"], out)


def rt_check(verdict, b, g, desc, rep, sigprefix):
    pr = [l for l in g["lines"] if l["cmd"] == "print"]
    rp = [l for l in g["lines"] if l["cmd"] == "reparse"]
    if len(pr) != 3 or len(rp) != 2:
        raise ModelError("round trip: unexpected observation count")
    t1, t2, t3 = pr[0]["text"], pr[1]["text"], pr[2]["text"]
    probs = []
    from .printnorm import same
    want = "".join(x + "\n" for x in b.get("printed", []))
    if b.get("printed") and not same(b["printed"], t1.split("\n")[:-1] if t1.endswith("\n") else t1.split("\n")):
        probs.append(("text", "printed text differs from the specification: %r vs %r" % (t1[:200], want[:200])))
    if rp[0]["ret"] != 0:
        probs.append(("reparse", "the printed text is rejected by the parser (%s): %r" % ([d["msg"] for d in rp[0]["diag"]][:2], t1[:300])))
    else:
        c1, c2 = rp[0]["ctx"].get("c1"), rp[0]["ctx"].get("c2")
        # a scalar without a value is written commented out ("# name=value"); annotation support reads
        # that line back as the annotation of the option that follows it
        unset_line = any(l.lstrip().startswith("# ") for l in t1.split("\n"))
        if rt_values(c1, not unset_line) != rt_values(c2, not unset_line):
            probs.append(("values", "re-parsed configuration differs from the printed one: text %r" % t1[:300]))
        if rp[1]["ret"] != 0 or t2 != t3:
            probs.append(("fixpoint", "second print/parse cycle changes the text: %r -> %r" % (t2[:200], t3[:200])))
        has_annot = b.get("pre") or any(e["call"]["op"] == "setcomment" for e in b["calls"])
        if not has_annot and not unset_line and t1 != t2:
            probs.append(("reprint", "re-parsed configuration prints differently: %r -> %r" % (t1[:200], t2[:200])))
    if probs:
        verdict.violation("%s:rt-%s:%s" % (sigprefix, "+".join(sorted(set(k for k, _ in probs))), desc),
                          "%s :: %s" % (desc, "; ".join(p for _, p in probs[:3])), dict(rep, texts=[t1, t2, t3]))


OPT_VARIANT = {"setint", "setfloat", "setbool", "setstr", "setmulti", "setcomment", "rmnsec", "rmtsec"}


def replay(verdict, exe, res, aspects, seed=0, tag="api", pol=None, sigprefix="api", extra_before=None, optvariant=False):
    pol = pol or {"mod": "nonsec", "reset": False, "cmt": False}
    schema = res.schemas[1]
    pretoks = res.extra.get("PRETOKS", [None])[0]
    pretext = render_tokens(pretoks) if pretoks else None
    scripts, meta = [], {}
    for n, b in enumerate(res.behaviours):
        lines = schema_lines("S", schema)
        if b.get("fail2"):
            lines.append("failat valid2 %d" % b["fail2"])
        if b.get("rw2"):
            lines.append("failat rewrite2 %d" % b["rw2"])
        lines.append("init c1 S %d" % FLAGBITS["COMMENTS"])
        if extra_before:
            lines += extra_before
        if b.get("pre"):
            lines.append("parsebuf c1 %s" % enc(pretext))
        # every transition is the last call of its own behaviour: the path leading to its
        # pre-state is executed without tree dumps (only return values are compared there)
        lines.append("dump 0")
        for e in b["calls"][:-1]:
            lines.append(call_cmd(e["call"], schema))
        lines.append("dump 1")
        lines.append("obs c1")
        last_cmd = call_cmd(b["calls"][-1]["call"], schema)
        if optvariant and b["calls"][-1]["call"]["op"] in OPT_VARIANT and "valid2" not in str(b.get("fail2", 0)):
            # the cfg_opt_* form of the same call (option looked up with cfg_getopt first)
            last_cmd = "o" + last_cmd
        if n % 3 == 1:
            lines.append("errno 34")      # ambient errno left behind by an earlier, unrelated range error (set-from-text calls)
        lines.append(last_cmd)
        if "roundtrip" in aspects and b["calls"][-1]["exp"]["ret"] != "unspec":
            lines += ["print c1", "init c2 S %d" % FLAGBITS["COMMENTS"], "reparse c1 c2", "print c2",
                      "init c3 S %d" % FLAGBITS["COMMENTS"], "reparse c2 c3", "print c3", "free c2", "free c3"]
        lines.append("free c1")
        bid = "a%d" % n
        scripts.append((bid, "\n".join(lines)))
        meta[bid] = b
    results = run_behaviours(exe, scripts, tag)
    script_of = dict(scripts)
    distinct = set()
    for bid, b in meta.items():
        g = results.get(bid)
        desc = ("pre; " if b.get("pre") else "") + "; ".join(call_text(e["call"]) for e in b["calls"])
        if b.get("fail2"):
            desc = "veto#%d; %s" % (b["fail2"], desc)
        if b.get("rw2"):
            desc = "rewrite#%d; %s" % (b["rw2"], desc)
        distinct.add(desc)
        verdict.cov["traces_validated_against_impl"] += 1
        rep = {"behaviour": b, "pretext": pretext, "script": script_of.get(bid)}
        if g is None:
            raise ModelError("behaviour %s produced no output" % bid)
        if g["crash"]:
            verdict.violation("%s:%s:%s" % (sigprefix, g["crash"]["kind"], desc),
                              "%s during %s :: %s" % (g["crash"]["kind"], desc, g["crash"]["detail"][:1500]),
                              dict(rep, crash=g["crash"]))
            continue
        if "roundtrip" in aspects and b["calls"][-1]["exp"]["ret"] != "unspec":
            rt_check(verdict, b, g, desc, rep, sigprefix)
        lines = [l for l in g["lines"] if l["cmd"] not in ("init", "parsebuf", "free", "obs", "print", "reparse", "searchpath")]
        for l in lines:
            if l["cmd"].startswith("o") and l["cmd"][1:] in OPT_VARIANT:
                l["cmd"] = l["cmd"][1:]
        if len(lines) != len(b["calls"]):
            raise ModelError("behaviour %s: %d observations for %d calls" % (bid, len(lines), len(b["calls"])))
        before = [l for l in g["lines"] if l["cmd"] == "obs"][-1]["ctx"].get("c1")
        ncalls = len(b["calls"])
        for k, (e, line) in enumerate(zip(b["calls"], lines)):
            islast = (k == ncalls - 1)
            exp = e["exp"]
            op = e["call"]["op"]
            if exp["ret"] == "unspec":
                break
            okv, failv = OKRET.get(op, (0, -1))
            want = okv if exp["ret"] == "ok" else failv
            diffs = []
            if line["ret"] != want:
                diffs.append(("ret", "return value expected %d (%s) observed %d" % (want, exp["ret"], line["ret"])))
            after = line["ctx"].get("c1") if islast else None
            if not islast:
                if diffs:
                    verdict.violation("%s:ret:%s" % (sigprefix, desc), "%s :: at %s: %s" % (desc, call_text(e["call"]), diffs[0][1]),
                                      dict(rep, observed=line, expected=exp))
                    break
                continue
            if "tree" in aspects:
                d = []
                cmp_sec(exp["obs"], after, "", d, pol)
                diffs.extend(("tree", x) for x in d)
            if "noeffect" in aspects and exp["ret"] == "fail" and not snapshot_equal(before, after):
                d = []
                cmp_sec(exp["obs"], after, "", d, {"mod": "all", "reset": True, "cmt": True})
                diffs.append(("noeffect", "refused call changed the configuration: %s" % ("; ".join(d[:4]) or "flags/annotation differ")))
            if "cb" in aspects:
                want_cb = [(x["k"], x["o"], x["v"]) for x in exp["cblog"]]
                got_cb = [(x["k"], x["o"], x["v"]) for x in line["cb"] if x["k"] == "valid2"]
                # integers arrive as decimal text, floats as %a
                norm = []
                for (k, o, v) in got_cb:
                    if isinstance(v, str) and v.startswith(("0x", "-0x")):
                        v = repr(float.fromhex(v)).rstrip("0").rstrip(".") if "." in repr(float.fromhex(v)) else repr(float.fromhex(v))
                    norm.append((k, o, v))
                if [(k, o) for k, o, _ in want_cb] != [(k, o) for k, o, _ in norm]:
                    diffs.append(("cb", "pre-set validation callback log expected %s observed %s" % (want_cb, norm)))
                else:
                    # the callback is handed exactly the value the caller passed
                    for (k, o, wv), (_, _, gv0) in zip(want_cb, got_cb):
                        if wv == NULL:
                            same = gv0 is None
                        elif isinstance(gv0, str) and gv0.startswith(("0x", "-0x")):
                            try:
                                same = float(wv) == float.fromhex(gv0)
                            except ValueError:
                                same = False
                        else:
                            same = gv0 == wv
                        if not same:
                            diffs.append(("cb", "pre-set validation callback of %s was handed %r, the call passed %r" % (o, gv0, wv)))
            if "freed" in aspects:
                wantf = sorted(exp["freed"])
                gotf = sorted("ptr%d" % x["id"] for x in line["cb"] if x["k"] == "free")
                dbl = [x for x in line["cb"] if x["k"] == "free" and x.get("double")]
                if wantf != gotf or dbl:
                    diffs.append(("freed", "pointers released by the call expected %s observed %s%s" % (wantf, gotf, " (double release)" if dbl else "")))
            if line["out"] != g["begin"]["out"]:
                diffs.append(("stdout", "stray output"))
            if diffs:
                kinds = sorted(set(k for k, _ in diffs))
                verdict.violation("%s:%s:%s" % (sigprefix, "+".join(kinds), desc),
                                  "%s :: at %s: %s" % (desc, call_text(e["call"]), "; ".join(d for _, d in diffs[:5])),
                                  dict(rep, observed=line, expected=exp))
                break
            before = after
        if "balance" in aspects and g["end"] is not None:
            b0, e0 = g["begin"], g["end"]
            probs = []
            if e0["live"] != b0["live"]:
                probs.append("%d heap block(s) still live after cfg_free" % (e0["live"] - b0["live"]))
            if e0["streams"] != b0["streams"] or e0["fds"] != b0["fds"]:
                probs.append("open streams/descriptors not restored")
            if e0.get("uptr_lost", 0):
                probs.append("%d user pointer(s) produced by the value-parsing callback were never handed to the release callback" % e0["uptr_lost"])
            if probs:
                verdict.violation("%s:balance:%s" % (sigprefix, desc), "%s :: %s" % (desc, "; ".join(probs)), rep)
    verdict.cov["evaluations"] += len(meta)
    verdict.cov["distinct_nontrivial"] += len(distinct)
    for bid in list(meta)[:3]:
        verdict.sample({"calls": [call_text(e["call"]) for e in meta[bid]["calls"]],
                        "expected_ret": [e["exp"]["ret"] for e in meta[bid]["calls"]]})
    return len(meta)
