"""Shared infrastructure: building the driver from /repo's working tree, running
TLC, running the driver, evidence / verdict bookkeeping."""
import hashlib, json, os, re, shutil, subprocess, sys, time, random

VERIF = os.path.dirname(os.path.dirname(os.path.dirname(os.path.abspath(__file__))))
REPO = os.environ.get("VERIF_REPO", "/repo")
BUILD = os.path.join(VERIF, "build")
SPEC = os.path.join(VERIF, "spec")
HARNESS = os.path.join(VERIF, "harness")
REPLAYS = os.path.join(VERIF, "replays")
EVIDENCE = os.path.join(VERIF, "evidence")
KNOWN = os.path.join(VERIF, "KNOWN_FINDINGS.txt")
if os.path.realpath(REPO) != "/repo":
    # a run against a scratch copy (seeded-change experiments): never touch the registered evidence
    REPLAYS = os.path.join(BUILD, "scratch", os.path.basename(REPO), "replays")
    EVIDENCE = os.path.join(BUILD, "scratch", os.path.basename(REPO), "evidence")
NCPU = os.cpu_count() or 4


class ModelError(Exception):
    """the machinery (not the code under test) is broken: exit 2, never VIOLATION"""


def sh(cmd, **kw):
    return subprocess.run(cmd, shell=isinstance(cmd, str), **kw)


# --------------------------------------------------------------------------
# build
# --------------------------------------------------------------------------
def _hash_files(paths, extra=""):
    h = hashlib.sha1(extra.encode())
    for p in paths:
        with open(p, "rb") as f:
            h.update(f.read())
    return h.hexdigest()[:16]


def build_driver(variant="asan"):
    """Build harness/driver.c against the library sources of REPO's current
    working tree.  variant: 'asan' (clang ASan+UBSan) | 'plain' (gcc -O0 -g, for valgrind)."""
    srcs = [os.path.join(REPO, "src", f) for f in ("confuse.c", "lexer.l", "confuse.h", "compat.h")]
    hsrc = [os.path.join(HARNESS, f) for f in ("driver.c", "alloc_shim.c", "alloc_shim.h", "config_fallback.h")]
    cfgh = os.path.join(REPO, "config.h")
    key = _hash_files(srcs + hsrc + ([cfgh] if os.path.exists(cfgh) else []), variant)
    d = os.path.join(BUILD, "drv-%s-%s" % (variant, key))
    exe = os.path.join(d, "driver")
    if os.path.exists(exe):
        return exe
    os.makedirs(d, exist_ok=True)
    # drop stale builds of the same variant
    for old in os.listdir(BUILD):
        op = os.path.join(BUILD, old)
        if old.startswith("drv-%s-" % variant) and old != os.path.basename(d) and time.time() - os.path.getmtime(op) > 3600:
            shutil.rmtree(op, ignore_errors=True)
    if variant == "asan":
        cc = ["clang", "-g", "-O1", "-fsanitize=address,undefined", "-fno-sanitize-recover=undefined",
              "-fno-omit-frame-pointer"]
    else:
        cc = ["gcc", "-g", "-O0"]
    inc = ["-I" + os.path.join(REPO, "src"), "-I" + HARNESS]
    if os.path.exists(cfgh):
        defs = ["-DHAVE_CONFIG_H", "-I" + REPO]
    else:
        defs = ["-include", os.path.join(HARNESS, "config_fallback.h")]
    defs += ["-D_GNU_SOURCE", "-DLOCALEDIR=\"/nonexistent\""]
    shim = ["-include", os.path.join(HARNESS, "alloc_shim.h")]
    steps = [
        ["flex", "-Pcfg_yy", "-o", os.path.join(d, "lexer.c"), os.path.join(REPO, "src", "lexer.l")],
        cc + defs + inc + shim + ["-DVF_SITE=1", "-c", os.path.join(REPO, "src", "confuse.c"), "-o", os.path.join(d, "confuse.o")],
        cc + defs + inc + shim + ["-DVF_SITE=2", "-Wno-unused-function", "-c", os.path.join(d, "lexer.c"), "-o", os.path.join(d, "lexer.o")],
        cc + inc + ["-c", os.path.join(HARNESS, "alloc_shim.c"), "-o", os.path.join(d, "shim.o")],
        cc + inc + ["-Wall", "-c", os.path.join(HARNESS, "driver.c"), "-o", os.path.join(d, "driver.o")],
        cc + [os.path.join(d, f) for f in ("confuse.o", "lexer.o", "shim.o", "driver.o")] + ["-o", exe],
    ]
    for st in steps:
        r = subprocess.run(st, capture_output=True, text=True)
        if r.returncode != 0:
            shutil.rmtree(d, ignore_errors=True)
            raise ModelError("build step failed: %s\n%s" % (" ".join(st), r.stderr[-4000:]))
    return exe


# --------------------------------------------------------------------------
# TLC
# --------------------------------------------------------------------------
class TlcResult:
    def __init__(self):
        self.behaviours = []      # decoded JSON payloads of BEH lines
        self.schemas = {}         # sid -> schema JSON
        self.extra = {}           # other tagged lines: tag -> [payloads]
        self.generated = 0
        self.distinct = 0
        self.depth = 0
        self.violated = []        # names of violated invariants / properties
        self.errors = []
        self.coverage = {}        # action -> (taken, generated)
        self.wall = 0.0
        self.raw_tail = ""


_TAG = re.compile(r'^<<"([A-Z]+)", (.*)>>$')


def _decode_tuple_payload(rest):
    """rest is e.g. '1, "json..."' or '"json..."' (TLC string literal syntax)."""
    # TLC prints strings with \" and \\ escapes; the JSON payload is the last string literal
    m = re.match(r'^(?:(\d+), )?"(.*)"$', rest, re.S)
    if not m:
        return None, None
    idx = int(m.group(1)) if m.group(1) else None
    body = m.group(2)
    # undo TLC string escaping: \" -> ", \\ -> \
    out = []
    i = 0
    while i < len(body):
        c = body[i]
        if c == "\\" and i + 1 < len(body):
            n = body[i + 1]
            if n == "n":
                out.append("\n")
            elif n == "t":
                out.append("\t")
            else:
                out.append(n)
            i += 2
        else:
            out.append(c)
            i += 1
    return idx, "".join(out)


def run_tlc(module, cfg, workers=None, timeout=3600, simulate=None, depth=None, env=None,
            seed=None, coverage=False, extra_args=None, want_behaviours=True, maxbeh=None):
    """Run TLC on spec/<module>.tla with spec/<cfg>; parse tagged output lines."""
    res = TlcResult()
    md = os.path.join(BUILD, "tlc", "%s-%d-%d" % (os.path.basename(cfg), os.getpid(), random.randrange(1 << 30)))
    os.makedirs(md, exist_ok=True)
    # the java launcher gives the main thread (which evaluates constant definitions and initial
    # states) the -Xss stack only when the option is on the command line, so java is run directly
    # with the class path of the pre-installed `tlc` wrapper
    cp = "/opt/veriftools/tla/tla2tools.jar:/opt/veriftools/tla/CommunityModules-deps.jar"
    cmd = ["timeout", str(timeout), "java", "-Xss512m", "-XX:+UseParallelGC", "-cp", cp, "tlc2.TLC",
           "-metadir", md, "-config", cfg, "-noGenerateSpecTE"]
    if simulate:
        cmd += ["-simulate", "num=%d" % simulate]
        if depth:
            cmd += ["-depth", str(depth)]
    if seed is not None:
        cmd += ["-seed", str(seed)]
    cmd += ["-workers", str(workers or NCPU)]
    if coverage:
        cmd += ["-coverage", "1"]
    if extra_args:
        cmd += extra_args
    cmd += [module]
    e = dict(os.environ)
    e.setdefault("JAVA_TOOL_OPTIONS", "-Xss256m")
    if env:
        e.update(env)
    t0 = time.time()
    p = subprocess.Popen(cmd, cwd=SPEC, stdout=subprocess.PIPE, stderr=subprocess.STDOUT, text=True, env=e,
                         errors="replace")
    tail = []
    for line in p.stdout:
        line = line.rstrip("\n")
        m = _TAG.match(line)
        if m:
            tag, rest = m.group(1), m.group(2)
            idx, payload = _decode_tuple_payload(rest)
            if payload is None:
                continue
            try:
                js = json.loads(payload)
            except Exception as ex:
                raise ModelError("cannot decode TLC payload (%s): %s" % (ex, line[:300]))
            if tag == "BEH":
                if want_behaviours and (maxbeh is None or len(res.behaviours) < maxbeh):
                    res.behaviours.append(js)
            elif tag == "SCHEMA":
                res.schemas[idx] = js
            else:
                res.extra.setdefault(tag, []).append(js if idx is None else (idx, js))
            continue
        tail.append(line)
        if len(tail) > 400:
            del tail[:200]
        m = re.search(r"(\d[\d,]*) states generated, (\d[\d,]*) distinct states found", line)
        if m:
            res.generated = int(m.group(1).replace(",", ""))
            res.distinct = int(m.group(2).replace(",", ""))
        m = re.search(r"depth of the complete state graph search is (\d+)", line)
        if m:
            res.depth = int(m.group(1))
        m = re.search(r"Invariant (\S+) is violated", line)
        if m:
            res.violated.append(m.group(1))
        m = re.search(r"Error: (.*)", line)
        if m and "Invariant" not in line:
            res.errors.append(m.group(1))
        m = re.match(r"^<(\w+) line \d+, col \d+ to line \d+, col \d+ of module (\w+)>: (\d+):(\d+)", line)
        if m:
            res.coverage[m.group(1)] = (int(m.group(3)), int(m.group(4)))
    rc = p.wait()
    res.wall = time.time() - t0
    res.raw_tail = "\n".join(tail[-80:])
    shutil.rmtree(md, ignore_errors=True)
    res.rc = rc
    if rc == 124:
        raise ModelError("TLC timed out after %ss on %s" % (timeout, cfg))
    if rc != 0 and not res.violated and not simulate:
        raise ModelError("TLC failed (rc=%d) on %s:\n%s" % (rc, cfg, res.raw_tail))
    return res


# --------------------------------------------------------------------------
# encoding helpers shared with the driver protocol
# --------------------------------------------------------------------------
def enc(s):
    """percent-encode a str (latin-1 code points = bytes) or None for the driver script;
    the empty string travels as %00 (decodes to an empty C string)"""
    if s is None:
        return "~"
    b = s.encode("latin-1") if isinstance(s, str) else bytes(s)
    if not b:
        return "%00"
    return "".join(chr(c) if (48 <= c <= 57 or 65 <= c <= 90 or 97 <= c <= 122) else "%%%02X" % c for c in b)


FLAGBITS = {"MULTI": 1, "LIST": 2, "NOCASE": 4, "TITLE": 8, "NODEFAULT": 16, "NO_TITLE_DUPES": 32,
            "RESET": 64, "DEFINIT": 128, "IGNORE_UNKNOWN": 256, "DEPRECATED": 512, "DROP": 1024,
            "COMMENTS": 2048, "MODIFIED": 4096, "KEYSTRVAL": 8192}
CBBITS = {"parse": 1, "valid": 2, "valid2": 4, "print": 8}


# --------------------------------------------------------------------------
# running the driver
# --------------------------------------------------------------------------
class DriverRun:
    def __init__(self, lines, rc, stderr, crashed_id=None):
        self.lines = lines          # parsed ndjson objects
        self.rc = rc
        self.stderr = stderr


def run_driver(exe, script_text, tag, timeout=600, valgrind=False):
    """Run one driver process over a script.  Returns (list of json objects, rc, stderr)."""
    wd = os.path.join(BUILD, "run", "%s-%d-%d" % (tag, os.getpid(), random.randrange(1 << 30)))
    os.makedirs(wd, exist_ok=True)
    sp = os.path.join(wd, "script.txt")
    op = os.path.join(wd, "out.ndjson")
    with open(sp, "w", encoding="latin-1") as f:
        f.write(script_text)
    env = {"PATH": os.environ.get("PATH", "/usr/bin:/bin"), "LC_ALL": "C", "HOME": "/root",
           "ASAN_OPTIONS": "detect_leaks=0:abort_on_error=0:exitcode=99:allocator_may_return_null=1:detect_stack_use_after_return=0",
           "UBSAN_OPTIONS": "print_stacktrace=1:halt_on_error=1:exitcode=98"}
    cmd = [exe, sp, op, os.path.join(wd, "scratch")]
    if valgrind:
        cmd = ["valgrind", "-q", "--error-exitcode=97", "--track-origins=yes"] + cmd
    try:
        r = subprocess.run(cmd, capture_output=True, env=env, timeout=timeout, cwd=wd)
        rc, err = r.returncode, r.stderr.decode("latin-1", "replace")
    except subprocess.TimeoutExpired as ex:
        rc, err = -999, "driver wall-clock timeout\n" + ((ex.stderr or b"").decode("latin-1", "replace"))
    objs = []
    if os.path.exists(op):
        with open(op, encoding="latin-1") as f:
            for ln in f:
                ln = ln.strip()
                if not ln:
                    continue
                try:
                    objs.append(json.loads(ln))
                except Exception:
                    objs.append({"garbled": ln[:200]})
    shutil.rmtree(wd, ignore_errors=True)
    return objs, rc, err


def split_by_behaviour(objs):
    """group driver output lines by behaviour id: {id: {'begin':..., 'lines':[...], 'end':...}}"""
    out, cur = {}, None
    order = []
    for o in objs:
        if "begin" in o:
            cur = {"begin": o, "lines": [], "end": None, "abnormal": None}
            out[o["begin"]] = cur
            order.append(o["begin"])
        elif cur is None:
            continue
        elif "end" in o:
            cur["end"] = o
        elif "hang" in o or "exit_called" in o or "garbled" in o:
            cur["abnormal"] = o
        else:
            cur["lines"].append(o)
    return out, order


def run_behaviours(exe, scripts, tag, chunk=400, per_timeout=20, valgrind=False, parallel=None):
    """scripts: list of (id, script_text_without_begin_end).  Runs them in chunks, in
    parallel driver processes; a crash / hang / exit inside one behaviour is attributed
    to it and the remaining behaviours of the chunk are re-run.
    Returns {id: {'lines', 'begin', 'end', 'crash': None | {'kind', 'detail'}}}"""
    from concurrent.futures import ThreadPoolExecutor
    results = {}

    def run_chunk(items, depth=0):
        text = []
        for bid, body in items:
            text.append("begin %s %d\n%s\nend\n" % (bid, per_timeout, body.rstrip("\n")))
        objs, rc, err = run_driver(exe, "".join(text), tag, timeout=per_timeout * len(items) + 60, valgrind=valgrind)
        groups, order = split_by_behaviour(objs)
        local = {}
        pending = []
        broken = False
        for bid, body in items:
            g = groups.get(bid)
            if broken:
                pending.append((bid, body))
                continue
            if g is None:
                # the process died before even starting this behaviour
                pending.append((bid, body))
                broken = True
                continue
            if g["end"] is not None and not g["abnormal"]:
                g["crash"] = None
                local[bid] = g
                continue
            # this behaviour did not finish
            kind = "crash"
            if g["abnormal"] and "hang" in g["abnormal"]:
                kind = "hang"
            elif g["abnormal"] and "exit_called" in g["abnormal"]:
                kind = "exit"
            elif rc == -999:
                kind = "hang"
            g["crash"] = {"kind": kind, "rc": rc, "detail": err[:3000]}
            local[bid] = g
            broken = True
        if rc == 70 and not broken:
            raise ModelError("driver protocol error: %s" % err[-2000:])
        if rc == 70:
            raise ModelError("driver protocol error: %s" % err[-2000:])
        if rc == 97 and not broken:
            # valgrind error reported at exit without killing a behaviour: attribute to whole chunk
            for bid in local:
                local[bid]["valgrind"] = err[-3000:]
        if pending:
            local.update(run_chunk(pending, depth + 1))
        return local

    chunks = [scripts[i:i + chunk] for i in range(0, len(scripts), chunk)]
    with ThreadPoolExecutor(max_workers=parallel or NCPU) as ex:
        for loc in ex.map(run_chunk, chunks):
            results.update(loc)
    # a hang (wall-clock limit) or a death without any sanitizer / driver message can be an artefact of a
    # loaded machine: such a behaviour is executed again, alone and with a generous limit, and only a
    # repeated failure is reported
    by_id = dict(scripts)
    for bid, g in list(results.items()):
        c = g.get("crash")
        if not c:
            continue
        silent = c["kind"] == "hang" or (c["kind"] == "crash" and "Sanitizer" not in c["detail"] and "runtime error" not in c["detail"]
                                          and "DRIVER" not in c["detail"] and "VF-OOM" not in c["detail"])
        if silent:
            text = "begin %s %d\n%s\nend\n" % (bid, per_timeout * 6, by_id[bid].rstrip("\n"))
            objs, rc, err = run_driver(exe, text, tag + "-again", timeout=per_timeout * 6 + 60, valgrind=valgrind)
            groups, _ = split_by_behaviour(objs)
            g2 = groups.get(bid)
            if g2 is not None and g2["end"] is not None and not g2["abnormal"]:
                g2["crash"] = None
                results[bid] = g2
    return results


# --------------------------------------------------------------------------
# verdicts, known findings, evidence
# --------------------------------------------------------------------------
def load_known():
    known, fixed = [], []
    if os.path.exists(KNOWN):
        for ln in open(KNOWN):
            ln = ln.strip()
            if ln.startswith("known:"):
                m = re.match(r"known:\s+property=(\S+)\s+signature=(\S+)\s+(.*)", ln)
                if m:
                    known.append({"property": m.group(1), "signature": m.group(2), "what": m.group(3)})
            elif ln.startswith("fixed:"):
                fixed.append(ln)
    return known, fixed


class Verdict:
    """collects violations for one check run; handles KNOWN-FINDING vs VIOLATION output"""

    def __init__(self, prop, tier, seed):
        self.prop, self.tier, self.seed = prop, tier, seed
        self.violations = []     # (signature, what, replay_obj)
        import glob
        for f in glob.glob(os.path.join(REPLAYS, "%s-*.json" % prop)):
            os.unlink(f)
        self.t0 = time.time()
        self.cov = {"states": 0, "transitions": 0, "traces_validated_against_impl": 0, "samples": [],
                    "evaluations": 0, "distinct_nontrivial": 0, "tlc_runs": [], "exhaustive": False}
        self.assumptions = []
        self.notes = []

    def add_tlc(self, name, res, invariants):
        self.cov["states"] += res.distinct
        self.cov["transitions"] += res.generated
        self.cov["tlc_runs"].append({"config": name, "distinct_states": res.distinct, "states_generated": res.generated,
                                     "depth": res.depth, "wall_s": round(res.wall, 1), "invariants": invariants,
                                     "behaviours_exported": len(res.behaviours)})
        for v in res.violated:
            self.violation("spec:%s:%s" % (name, v), "TLC: invariant %s violated in %s (the specification itself breaks the property)" % (v, name),
                           {"tlc_tail": res.raw_tail})

    def violation(self, signature, what, replay):
        self.violations.append((signature, what, replay))

    def sample(self, obj):
        if len(self.cov["samples"]) < 5:
            self.cov["samples"].append(obj)

    def finish(self, level="model_checking", rule=None, extra_cov=None):
        known, _ = load_known()
        kn = {(k["property"], k["signature"]): k for k in known}
        os.makedirs(REPLAYS, exist_ok=True)
        os.makedirs(EVIDENCE, exist_ok=True)
        printed_known = set()
        nviol = 0
        seen = set()
        for sig, what, replay in self.violations:
            if (self.prop, sig) in kn:
                if sig not in printed_known:
                    print("KNOWN-FINDING: property=%s %s" % (self.prop, kn[(self.prop, sig)]["what"]))
                    printed_known.add(sig)
                continue
            if sig in seen:
                continue
            seen.add(sig)
            nviol += 1
            if nviol <= 25:
                h = hashlib.sha1(sig.encode()).hexdigest()[:12]
                path = os.path.join(REPLAYS, "%s-%s.json" % (self.prop, h))
                with open(path, "w") as f:
                    json.dump({"property": self.prop, "signature": sig, "what": what, "replay": replay}, f, indent=1, default=str)
                print("VIOLATION property=%s replay=%s" % (self.prop, path))
                print("  signature=%s" % sig)
                print("  %s" % what[:600])
        if os.environ.get("VERIF_DEBUG"):
            with open(os.path.join(BUILD, "debug-sigs-%s.txt" % self.prop), "w") as df:
                for sig, what, _ in self.violations:
                    df.write(sig + "\n")
            import collections
            c = collections.Counter()
            ex = {}
            for sig, what, _ in self.violations:
                key = re.sub(r"[0-9]+", "N", what.split("::")[-1])[:100]
                c[key] += 1
                ex.setdefault(key, what[:400])
            for k, n in c.most_common(40):
                print("DEBUG %6d  %s\n              e.g. %s" % (n, k, ex[k]))
        cov = self.cov
        if rule:
            cov["rule"] = rule
        if extra_cov:
            cov.update(extra_cov)
        ev = {"property_id": self.prop, "tier": self.tier, "seed": self.seed, "level": level, "coverage": cov,
              "assumptions": self.assumptions, "wall_s": round(time.time() - self.t0, 1), "violations": nviol,
              "known_findings_matched": sorted(printed_known), "notes": self.notes}
        with open(os.path.join(EVIDENCE, "%s.json" % self.prop), "w") as f:
            json.dump(ev, f, indent=1, default=str)
        print("%s %s: %s  (states=%d transitions=%d impl_traces=%d wall=%.1fs)" % (
            self.prop, self.tier, "FAIL" if nviol else "ok", cov["states"], cov["transitions"],
            cov["traces_validated_against_impl"], time.time() - self.t0))
        return 1 if nviol else 0
