"""Leg A for MC_Scan (C08): histories of events on two contexts, then probe parses."""
import json
from .core import enc, run_behaviours, ModelError
from .render import schema_lines, cmp_sec
from .lexcheck import conv_schema, conv_obs, b2s


def replay(verdict, exe, res, seed=0, tag="scan", sigprefix="scan", via="parsebuf"):
    schema = conv_schema(res.schemas[1])
    fsj = res.extra["FS"][0]
    fslines = ["fs file %s %s" % (enc(b2s(n)), enc(b2s(t))) for n, t in zip(fsj["names"], fsj["texts"])]
    scripts, meta, scripts_by_id = [], {}, {}
    for n, b in enumerate(res.behaviours):
        lines = schema_lines("S", schema) + fslines + ["init c1 S 0", "init c2 S 0"]
        for e in b["hist"]:
            c = "c%d" % e["c"]
            if e["e"] == "free":
                lines += ["free %s" % c, "init %s S 0" % c]
            else:
                lines.append("%s %s %s" % (via, c, enc(b2s(e["text"]))))
        lines.append("init c3 S 0")
        for p in b["probes"]:
            lines.append("%s c3 %s" % (via, enc(b2s(p["text"]))))
        lines += ["free c1", "free c2", "free c3"]
        bid = "h%d" % n
        scripts.append((bid, "\n".join(lines)))
        scripts_by_id[bid] = lines
        meta[bid] = b
    results = run_behaviours(exe, scripts, tag, chunk=200)
    distinct = set()
    for bid, b in meta.items():
        g = results.get(bid)
        desc = "; ".join("c%d:%s" % (e["c"], e["e"]) for e in b["hist"])
        distinct.add(desc)
        verdict.cov["traces_validated_against_impl"] += 1
        rep = {"history": [(e["c"], e["e"], b2s(e["text"])) for e in b["hist"]], "script": "\n".join(scripts_by_id[bid])}
        if g is None:
            raise ModelError("no output")
        if g["crash"]:
            verdict.violation("%s:%s:%s" % (sigprefix, g["crash"]["kind"], desc), "history %s :: %s" % (desc, g["crash"]["detail"][:1000]), rep)
            continue
        pl = [l for l in g["lines"] if l["cmd"] == via]
        evs = [e for e in b["hist"] if e["e"] != "free"]
        steps = [(e, "c%d" % e["c"]) for e in evs] + [(p, "c3") for p in b["probes"]]
        if len(pl) != len(steps):
            raise ModelError("observation count mismatch")
        probs = []
        # cross-talk: between two consecutive observations only the acting context may change
        emitting = [l for l in g["lines"] if l["cmd"] in ("init", "free", via)]
        actors = []
        for sl in scripts_by_id[bid]:
            w = sl.split(" ")
            if w[0] in ("init", "free", via):
                actors.append(w[1])
        for (a, b2, actor) in zip(emitting, emitting[1:], actors[1:]):
            for oc in ("c1", "c2", "c3"):
                if oc != actor and oc in a["ctx"] and oc in b2["ctx"] and json.dumps(a["ctx"][oc], sort_keys=True) != json.dumps(b2["ctx"][oc], sort_keys=True):
                    probs.append("%s on %s changed the other context %s" % (b2["cmd"], actor, oc))
        prev = None
        for k, ((e, c), line) in enumerate(zip(steps, pl)):
            what = ("event %s on %s" % (e["e"], c)) if k < len(evs) else ("probe %r" % b2s(e["text"]))
            if e["status"] != "unspec":
                want = 0 if e["status"] == "ok" else 1
                if line["ret"] != want:
                    probs.append("%s: return code %d, expected %d" % (what, line["ret"], want))
                if e["status"] == "fail" and not line["diag"]:
                    probs.append("%s: rejected without diagnostic" % what)
                if e["status"] == "fail" and e.get("dline") and line["diag"]:
                    d0 = line["diag"][0]
                    wantf = "[buf]" if via == "parsebuf" else "FILE"
                    if d0["line"] != e["dline"] or d0["file"] != wantf:
                        probs.append("%s: first diagnostic at %s:%s, expected %s:%s" % (what, d0["file"], d0["line"], wantf, e["dline"]))
                d = []
                cmp_sec(conv_obs(e["obs"]), line["ctx"].get(c), "", d, {"mod": "none", "cmt": False})
                if d:
                    probs.append("%s: %s" % (what, "; ".join(d[:2])))
            if line["out"] != g["begin"]["out"]:
                probs.append("%s: output on stdout" % what)
            if probs:
                break
        if g["end"] and (g["end"]["incsp"] != 0 or g["end"]["fds"] != g["begin"]["fds"] or g["end"]["live"] != g["begin"]["live"]):
            probs.append("after the history: include stack %d, descriptors %d->%d, live blocks %d->%d" % (
                g["end"]["incsp"], g["begin"]["fds"], g["end"]["fds"], g["begin"]["live"], g["end"]["live"]))
        if probs:
            verdict.violation("%s:%s" % (sigprefix, desc), "history %s :: %s" % (desc, "; ".join(probs[:3])), rep)
    verdict.cov["evaluations"] += len(meta)
    verdict.cov["distinct_nontrivial"] += len(distinct)
    for bid in list(meta)[:2]:
        verdict.sample({"history": [(e["c"], e["e"], b2s(e["text"])) for e in meta[bid]["hist"]],
                        "probe_status": [p["status"] for p in meta[bid]["probes"]]})
