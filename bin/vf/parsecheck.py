"""Leg A for the parser-level models: replay TLC-generated parse behaviours
(MC_Parse) through the real library and compare every observation."""
import random
from .core import enc, run_behaviours, ModelError
from .render import (schema_lines, ctx_flags, render_tokens, cmp_sec, NULL, ANY)


def beh_text(b, rng=None, canonical=True):
    return [render_tokens(p["toks"], rng, canonical) for p in b["parses"]]


# "mixN": an empty configuration (newlines and a comment: accepted, changes nothing - the specification's parse of
# the empty text) is parsed first through one entry point, then the behaviour's texts through another one
MIXES = {"mix0": ("file", "buf"), "mix1": ("buf", "fp"), "mix2": ("fp", "file")}
PRELUDE = "\n\n/* c */\n\n"


def build_script(b, schemas, texts, extra_before=None, roundtrip=False, via="buf"):
    vias = (MIXES[via][1],) if via in MIXES else (via,)
    sid = b["sid"]
    pc = b["pcfg"]
    lines = schema_lines("S", schemas[sid])
    for kind, key in (("parse", "failParse"), ("valid", "failValid"), ("func", "failFunc")):
        if pc.get(key):
            lines.append("failat %s %d" % (kind, pc[key]))
    lines.append("init c1 S %d" % ctx_flags(pc))
    if extra_before:
        lines += extra_before
    if via in MIXES:
        pv = MIXES[via][0]
        if pv == "fp":
            lines.append("parsefp c1 %s" % enc(PRELUDE))
        elif pv == "file":
            lines += ["fs file $R/pre.conf %s" % enc(PRELUDE), "parsefile c1 $R/pre.conf"]
        else:
            lines.append("parsebuf c1 %s" % enc(PRELUDE))
    for k, t in enumerate(texts):
        via = vias[k % len(vias)]
        if via == "fp":
            lines.append("parsefp c1 %s" % enc(t))              # cfg_parse_fp on a stream
        elif via == "file":
            lines.append("fs file $R/main%d.conf %s" % (k, enc(t)))
            lines.append("parsefile c1 $R/main%d.conf" % k)     # cfg_parse on a file
        else:
            lines.append("parsebuf c1 %s" % enc(t))
    if roundtrip:
        fl = ctx_flags(pc)
        lines += ["print c1", "init c2 S %d" % fl, "reparse c1 c2", "print c2", "init c3 S %d" % fl, "reparse c2 c3",
                  "print c3", "free c2", "free c3"]
    lines.append("free c1")
    return "\n".join(lines)


def short(b, texts):
    return "S%d flags=%d :: %s" % (b["sid"], ctx_flags(b["pcfg"]), " || ".join(texts))


def cmp_cblog(exp_log, obs_cb, diffs, scratch=None):
    """callback invocations (value-parsing, validation, function) in order"""
    want = [e for e in exp_log]
    got = [c for c in obs_cb if c["k"] in ("parse", "valid", "func")]
    if scratch:
        # the driver substitutes the scratch root for "$R" in every text: undo it in what the callbacks saw
        got = [dict(c, argv=[a.replace(scratch, "$R") for a in c["argv"]]) if c["k"] == "func" else c for c in got]
    if len(want) != len(got):
        diffs.append("callback log length expected %d observed %d (exp %s obs %s)" % (
            len(want), len(got), [(e["k"], e["o"]) for e in want], [(c["k"], c["o"]) for c in got]))
        return
    for i, (e, c) in enumerate(zip(want, got)):
        if e["k"] != c["k"] or e["o"] != c["o"]:
            diffs.append("callback #%d expected %s(%s) observed %s(%s)" % (i + 1, e["k"], e["o"], c["k"], c["o"]))
            continue
        if e["k"] == "parse" and e["v"] != c["v"]:
            diffs.append("callback #%d: value-parsing callback saw %r, the text says %r" % (i + 1, c["v"], e["v"]))
        if e["k"] == "func" and list(e["vals"]) != list(c["argv"]):
            diffs.append("callback #%d: function saw argv %r, the text says %r" % (i + 1, c["argv"], e["vals"]))
        if e["k"] == "valid":
            ev, ov = e["vals"], c["vals"]
            if len(ev) != len(ov):
                diffs.append("callback #%d: validation of %s saw %d values, expected %d" % (i + 1, e["o"], len(ov), len(ev)))


def check_parse_result(exp, line, diffs, aspects, pol, clean=True, base_out=0, scratch=None, bufname="[buf]"):
    """compare one parse's expected outcome with the driver's observation line"""
    st = exp["status"]
    if line["out"] != base_out:
        diffs.append(("stdout", "%d stray byte(s) on standard output" % (line["out"] - base_out)))
    if st == "unspec":
        return
    want_ret = 0 if st == "ok" else 1
    if line["ret"] != want_ret:
        diffs.append(("ret", "return code expected %d (%s) observed %d" % (want_ret, st, line["ret"])))
    # the properties fix the values after an ACCEPTED parse (C01); what a rejected parse leaves
    # behind is only compared where a property says so (aspect 'tree_rejected', C10)
    if ("tree" in aspects and st == "ok" and clean) or ("tree_rejected" in aspects and st == "fail" and clean):
        d = []
        cmp_sec(exp["obs"], line["ctx"].get("c1"), "", d, pol)
        diffs.extend(("tree", x) for x in d)
    if "diag" in aspects:
        nd = len(line["diag"])
        if exp["ndiag"] == "0" and nd != 0:
            diffs.append(("diag", "accepted text delivered %d diagnostic(s): %r" % (nd, [x["msg"] for x in line["diag"]][:3])))
        if st == "ok" and "ndep" in exp and nd != int(exp["ndep"]):
            diffs.append(("diag", "accepted text delivered %d diagnostic(s), expected %s deprecation notice(s): %r" % (
                nd, exp["ndep"], [x["msg"] for x in line["diag"]][:3])))
        if exp["ndiag"] == "some" and nd == 0:
            diffs.append(("diag", "rejected text delivered no diagnostic"))
        if exp["ndiag"] == "some" and nd > 0 and "diagpos" in aspects:
            e1, o1 = exp["diag1"], dict(line["diag"][0])
            efile = bufname if e1["file"] == "buf" else e1["file"]
            if scratch and o1["file"] and o1["file"].startswith(scratch):
                o1["file"] = "$R" + o1["file"][len(scratch):]
            if o1["file"] != efile or o1["line"] != e1["line"]:
                diffs.append(("diagpos", "first diagnostic at %s:%s expected %s:%s (%r)" % (
                    o1["file"], o1["line"], efile, e1["line"], o1["msg"])))
    if "cb" in aspects:
        d = []
        cmp_cblog(exp["cblog"], line["cb"], d, scratch)
        diffs.extend(("cb", x) for x in d)
    if "freed" in aspects:
        want = sorted(exp["freed"])
        got = sorted("ptr%d" % c["id"] for c in line["cb"] if c["k"] == "free")
        dbl = [c for c in line["cb"] if c["k"] == "free" and c.get("double")]
        if dbl:
            diffs.append(("freed", "user pointer released twice: %r" % dbl))
        if want != got:
            diffs.append(("freed", "pointers released during the call expected %s observed %s" % (want, got)))


def ptrs_in(sec):
    out = []
    for o in sec["o"]:
        if o["ty"] == "ptr":
            out += list(o["v"])
        elif o["ty"] == "sec":
            for s in o["v"]:
                out += ptrs_in(s)
    return out


def clean_all(b):
    return all(p["exp"]["status"] in ("ok", "fail") for p in b["parses"])


def replay(verdict, exe, res, aspects, pol=None, seed=0, renderings=("canonical",), tag="parse",
           maxbeh=None, sigprefix="parse", extra_before=None, extra_check=None):
    """Replay every behaviour of a TLC run; record violations in verdict.
    aspects: subset of {'tree','diag','diagpos','cb','freed','balance'}"""
    pol = pol or {}
    rng = random.Random(seed)
    behs = res.behaviours
    if maxbeh and len(behs) > maxbeh:
        behs = rng.sample(behs, maxbeh)
    scripts, meta = [], {}
    n = 0
    for b in behs:
        for r in renderings:
            canonical = r in ("canonical", "fp", "file") or r in MIXES
            try:
                texts = beh_text(b, rng, canonical)
            except ValueError:
                continue
            bid = "b%d" % n
            n += 1
            via = r if r in ("fp", "file") or r in MIXES else "buf"
            scripts.append((bid, build_script(b, res.schemas, texts, extra_before, "roundtrip" in aspects, via)))
            meta[bid] = (b, texts, via)
    results = run_behaviours(exe, scripts, tag)
    script_of = dict(scripts)
    nontrivial = set()
    for bid, (b, texts, via) in meta.items():
        g = results.get(bid)
        desc = short(b, texts) + ("" if via == "buf" else " [via %s]" % " after an empty text via ".join(
            {"buf": "cfg_parse_buf", "fp": "cfg_parse_fp", "file": "cfg_parse"}[x] for x in reversed(MIXES.get(via, (via,)))))
        if g is None:
            raise ModelError("behaviour %s produced no output" % bid)
        verdict.cov["traces_validated_against_impl"] += 1
        if any(p["exp"]["status"] != "fail" or len(p["toks"]) > 1 for p in b["parses"]):
            nontrivial.add(desc)
        replay_obj = {"behaviour": b, "texts": texts, "script": script_of.get(bid)}
        if g["crash"]:
            verdict.violation("%s:%s:%s" % (sigprefix, g["crash"]["kind"], desc),
                              "%s while executing %s :: %s" % (g["crash"]["kind"], desc, g["crash"]["detail"][:1500]),
                              dict(replay_obj, crash=g["crash"]))
            continue
        plines = [l for l in g["lines"] if l["cmd"] in ("parsebuf", "parsefp", "parsefile")]
        if via in MIXES:
            if not plines or plines[0]["ret"] != 0 or plines[0]["diag"]:
                verdict.violation("%s:prelude:%s" % (sigprefix, via), "an empty text (newlines and a comment) was not accepted silently via %s: %r" % (
                    MIXES[via][0], plines[0] if plines else None), replay_obj)
                continue
            plines = plines[1:]
        if len(plines) != len(b["parses"]):
            raise ModelError("behaviour %s: expected %d parse observations, got %d" % (bid, len(b["parses"]), len(plines)))
        clean = True
        for p, line in zip(b["parses"], plines):
            diffs = []
            check_parse_result(p["exp"], line, diffs, aspects, pol, clean, g["begin"]["out"], g["begin"].get("scratch"),
                               {"buf": "[buf]", "fp": "FILE", "file": "$R/main%d.conf" % plines.index(line)}[
                                   MIXES[via][1] if via in MIXES else via])
            if p["exp"]["status"] != "ok":
                clean = False
            if diffs:
                kinds = sorted(set(k for k, _ in diffs))
                verdict.violation("%s:%s:%s" % (sigprefix, "+".join(kinds), desc),
                                  "%s :: %s" % (desc, "; ".join(d for _, d in diffs[:6])),
                                  dict(replay_obj, observed=line, expected=p["exp"]))
                break
        if extra_check:
            more = extra_check(b, g, plines)
            if more:
                verdict.violation("%s:%s:%s" % (sigprefix, "+".join(sorted(set(k for k, _ in more))), desc),
                                  "%s :: %s" % (desc, "; ".join(d for _, d in more[:4])), replay_obj)
        if "roundtrip" in aspects:
            from .apicheck import rt_check
            rt_check(verdict, {"pre": True, "calls": [], "printed": []}, g, desc, replay_obj, sigprefix)
        if "freed" in aspects and b["parses"] and b["parses"][-1]["exp"]["status"] != "unspec" and clean_all(b):
            # cfg_free hands every pointer still stored to the release callback exactly once
            fl = [l for l in g["lines"] if l["cmd"] == "free"]
            want = sorted(ptrs_in(b["parses"][-1]["exp"]["obs"]))
            got = sorted("ptr%d" % c["id"] for l in fl for c in l["cb"] if c["k"] == "free")
            dbl = [c for l in fl for c in l["cb"] if c["k"] == "free" and c.get("double")]
            if dbl or want != got:
                verdict.violation("%s:freed-at-free:%s" % (sigprefix, desc),
                                  "%s :: cfg_free released %s, the store held %s%s" % (desc, got, want, " (double release)" if dbl else ""),
                                  replay_obj)
        if "balance" in aspects and g["end"] is not None:
            b0, e0 = g["begin"], g["end"]
            probs = []
            if e0["live"] != b0["live"]:
                probs.append("%d heap block(s) still live after cfg_free" % (e0["live"] - b0["live"]))
            if e0["streams"] != b0["streams"] or e0["fds"] != b0["fds"]:
                probs.append("open streams %d->%d, descriptors %d->%d" % (b0["streams"], e0["streams"], b0["fds"], e0["fds"]))
            if e0["out"] != b0["out"]:
                probs.append("stray output on stdout")
            if e0.get("uptr_lost", 0):
                probs.append("%d user pointer(s) produced by the value-parsing callback were never handed to the release callback" % e0["uptr_lost"])
            if e0.get("incsp", 0) != 0:
                probs.append("include stack not empty after the behaviour (%d)" % e0["incsp"])
            if probs:
                verdict.violation("%s:balance:%s" % (sigprefix, desc), "%s :: %s" % (desc, "; ".join(probs)), replay_obj)
    verdict.cov["evaluations"] += len(meta)
    verdict.cov["distinct_nontrivial"] += len(nontrivial)
    for bid in list(meta)[:3]:
        verdict.sample({"text": meta[bid][1], "schema": meta[bid][0]["sid"], "expected_status": [p["exp"]["status"] for p in meta[bid][0]["parses"]]})
    return len(meta)
