"""Rendering of spec-level objects into what the real library consumes (schema
declarations, configuration text) and normalisation of what the driver observed
back into the spec's vocabulary."""
import random, re
from .core import enc, FLAGBITS, CBBITS

NULL, ANY, BAD = "<NULL>", "<ANY>", "<BAD>"

BARE_OK = re.compile(r"^[A-Za-z0-9_.:\-]+$")


def quote_dq(s):
    out = ['"']
    for ch in s:
        c = ord(ch)
        if ch == '"':
            out.append('\\"')
        elif ch == "\\":
            out.append("\\\\")
        elif ch == "$":
            out.append("\\$")
        elif ch == "\n":
            out.append("\\n")
        elif ch == "\t":
            out.append("\\t")
        elif c < 0x20 or c == 0x7f:
            out.append("\\x%02x" % c)
        else:
            out.append(ch)
    out.append('"')
    return "".join(out)


def quote_sq(s):
    return "'" + s.replace("\\", "\\\\").replace("'", "\\'") + "'"


def render_str(s, rng=None, style=None):
    """one string token in one of the lexical forms that denote exactly s"""
    if s.startswith("$R"):
        return '"' + s + '"'      # a path under the scratch root: substituted by the driver before parsing
    styles = ["dq"]
    if BARE_OK.match(s):
        styles.append("bare")
    if all(0x20 <= ord(c) < 0x7f for c in s) or s == "":
        styles.append("sq")
    if style is None:
        style = rng.choice(styles) if rng else ("bare" if "bare" in styles else "dq")
    if style not in styles:
        style = "dq"
    if style == "bare":
        return s
    if style == "sq":
        return quote_sq(s)
    return quote_dq(s)


def render_tokens(toks, rng=None, canonical=True):
    """Token records (k, v, nl, nlin) -> configuration text with exactly tok.nl newlines
    before each token.  canonical: bare words where possible, single spaces."""
    out = []
    prev_line_comment = False
    prev_block_comment = False
    prev_bare = False           # the previous token was written as a bare word
    for i, t in enumerate(toks):
        k = t["k"]
        nl = int(t.get("nl", 0))
        if prev_line_comment and nl == 0 and k != "eof":
            raise ValueError("line comment must be followed by a newline")
        style = None
        if k == "cmt":
            nxt = toks[i + 1] if i + 1 < len(toks) else None
            can_line = nxt is None or int(nxt.get("nl", 0)) >= 1 or nxt["k"] == "eof"     # (the end of the text ends a line comment)
            style = t.get("style")
            if style is None:
                if can_line and rng is not None and not canonical:
                    style = rng.choice(["#", "//", "/*"])
                else:
                    style = "/*"
            if style in ("#", "//") and (not can_line or "\n" in t["v"]):
                style = "/*"
        sep = "\n" * nl
        if i > 0 and nl == 0:
            sep = " " if (canonical or rng is None) else rng.choice([" ", "  ", "\t", " "])
            # a comment needs no white space in front of it - except that a slash directly behind a bare word
            # belongs to the word (lexer.l: unquoted strings may contain slashes) - and a block comment none after it
            glue_ok = (k == "cmt" and (style == "#" or not prev_bare)) or (prev_block_comment and k != "cmt")
            if not canonical and rng is not None and glue_ok and rng.random() < 0.5:
                sep = ""
        elif nl > 0 and not canonical and rng is not None:
            sep = sep + rng.choice(["", " ", "\t"])
        out.append(sep)
        prev_line_comment = False
        prev_block_comment = False
        prev_bare = False
        if k == "str" and int(t.get("nlin", 0)) > 0:
            # a value spanning lines: literal newlines inside double quotes
            out.append('"' + t["v"].replace("\\", "\\\\").replace('"', '\\"') + '"')
        elif k == "str":
            txt = render_str(t["v"], None if canonical else rng)
            prev_bare = not txt.startswith(('"', "'"))
            out.append(txt)
        elif k == "cmt":
            if style == "/*":
                out.append("/* %s */" % t["v"])
                prev_block_comment = True
            else:
                out.append("%s %s" % (style, t["v"]))
                prev_line_comment = True
        elif k == "eof":
            pass
        else:
            out.append(k)
    return "".join(out)


# --------------------------------------------------------------------------
def render_list_default(vals, ty):
    if not vals:
        return None
    return "{" + ", ".join(quote_dq(v) if ty == "str" else v for v in vals) + "}"


def schema_lines(name, decls):
    """spec schema (list of Decl records) -> driver 'schema' block"""
    lines = ["schema %s" % name]

    def emit(ds):
        for d in ds:
            flags = sum(FLAGBITS[f] for f in d["flags"] if f != "SIMPLE")
            cb = sum(CBBITS[c] for c in d["cb"])
            ty = d["type"]
            if "SIMPLE" in d["flags"]:
                # the caller's variable starts at 0 / 0.0 / false / NULL (the driver's storage)
                lines.append("o s%s %s %d %d ~" % (ty, enc(d["name"]), flags, cb))
                continue
            if ty == "sec":
                lines.append("o sec %s %d %d" % (enc(d["name"]), flags, cb))
                emit(d["sub"])
                lines.append("e")
                continue
            if ty == "func":
                lines.append("o func %s %d %d %s" % (enc(d["name"]), flags, cb, d.get("fn") or "user"))
                continue
            if ty == "ptr":
                lines.append("o ptr %s %d %d ~" % (enc(d["name"]), flags, cb))
                continue
            df = d["def"]
            if "LIST" in d["flags"]:
                txt = render_list_default(df, ty)
                lines.append("o %s %s %d %d %s" % (ty, enc(d["name"]), flags, cb, enc(txt)))
            else:
                v = df[0] if df else None
                if ty == "str":
                    dv = enc(None if v in (None, NULL) else v)
                elif ty == "bool":
                    dv = "1" if v == "true" else "0"
                elif v is None:
                    dv = "~"
                else:
                    dv = v
                lines.append("o %s %s %d %d %s" % (ty, enc(d["name"]), flags, cb, dv))
    emit(decls)
    lines.append("endschema")
    return lines


def ctx_flags(pcfg):
    f = 0
    if pcfg.get("nocase"):
        f |= FLAGBITS["NOCASE"]
    if pcfg.get("comments"):
        f |= FLAGBITS["COMMENTS"]
    if pcfg.get("ignore"):
        f |= FLAGBITS["IGNORE_UNKNOWN"]
    return f


# --------------------------------------------------------------------------
# comparison of observations
# --------------------------------------------------------------------------
def float_eq(canon, hexs):
    try:
        return float(canon) == float.fromhex(hexs)
    except Exception:
        return False


def cmp_value(ty, exp, obs):
    """exp: spec value (string); obs: driver JSON value"""
    if exp == ANY:
        return True
    if ty == "int":
        return obs == exp
    if ty == "float":
        return isinstance(obs, str) and float_eq(exp, obs)
    if ty == "bool":
        return (obs is True and exp == "true") or (obs is False and exp == "false")
    if ty == "str":
        return (obs is None and exp == NULL) or (obs is not None and obs == exp)
    if ty == "ptr":
        if obs is None:
            return exp == NULL
        return exp == "ptr%d" % obs["id"] and not obs["freed"]
    return False


def cmp_sec(exp, obs, path, diffs, pol):
    """exp: ObsSec from the spec; obs: driver section dump. Appends human-readable diffs."""
    if obs is None:
        diffs.append("%s: section missing in implementation" % path)
        return
    et = exp["t"]
    ot = obs["t"]
    if not ((et == NULL and ot is None) or (ot is not None and et == ot)):
        diffs.append("%s: title expected %r observed %r" % (path, et, ot))
    eo, oo = exp["o"], obs["o"]
    if len(eo) != len(oo):
        diffs.append("%s: option count expected %d observed %d (%s vs %s)" % (
            path, len(eo), len(oo), [o["n"] for o in eo], [o["n"] for o in oo]))
        return
    for i, (e, o) in enumerate(zip(eo, oo)):
        p = "%s/%s" % (path, e["n"])
        if e["n"] != o["n"]:
            diffs.append("%s: name expected %r observed %r" % (p, e["n"], o["n"]))
            continue
        if e["ty"] != o["ty"]:
            diffs.append("%s: type expected %s observed %s" % (p, e["ty"], o["ty"]))
            continue
        ev, ov = e["v"], o["v"]
        if len(ev) != len(ov):
            diffs.append("%s: size expected %d observed %d (exp %s obs %s)" % (p, len(ev), len(ov), ev if e["ty"] != "sec" else "..", ov if e["ty"] != "sec" else ".."))
        else:
            for j, (a, b) in enumerate(zip(ev, ov)):
                if e["ty"] == "sec":
                    cmp_sec(a, b, "%s[%d]" % (p, j), diffs, pol)
                elif not cmp_value(e["ty"], a, b):
                    diffs.append("%s[%d]: value expected %r observed %r" % (p, j, a, b))
        mod = bool(o["fl"] & FLAGBITS["MODIFIED"])
        if pol.get("mod", "nonsec") == "all" or (pol.get("mod", "nonsec") == "nonsec" and e["ty"] not in ("sec", "func")):
            if e["mod"] != mod:
                diffs.append("%s: modified mark expected %s observed %s" % (p, e["mod"], mod))
        if pol.get("reset"):
            rs = bool(o["fl"] & FLAGBITS["RESET"])
            if e["reset"] != rs:
                diffs.append("%s: default marker expected %s observed %s" % (p, e["reset"], rs))
        if pol.get("cmt", True) and e["c"] != ANY:
            ec, oc = e["c"], o["c"]
            if not ((ec == NULL and oc is None) or (oc is not None and ec == oc)):
                diffs.append("%s: annotation expected %r observed %r" % (p, ec, oc))
