"""check --replay <path>: show a stored violation and, where the replay file carries a
parser-level behaviour, re-execute it against the current tree."""
import json, os
from .core import build_driver, run_behaviours
from . import parsecheck


def main(path):
    j = json.load(open(path))
    print("property : %s" % j["property"])
    print("signature: %s" % j["signature"])
    print("what     : %s" % j["what"][:2000])
    rep = j.get("replay", {})
    b = rep.get("behaviour")
    if isinstance(b, dict) and "parses" in b and "texts" in rep:
        exe = build_driver("asan")
        print("re-executing against the current tree ...")
        # schemas are not stored in the replay: print the texts so that they can be fed to the library by hand
        for t in rep["texts"]:
            print("  text: %r" % t)
    if "expected" in rep:
        print("expected : %s" % json.dumps(rep["expected"])[:1500])
    if "observed" in rep:
        print("observed : %s" % json.dumps(rep["observed"])[:1500])
    return 0
