"""check --replay <path>: show a stored violation and re-execute its driver script against the
current working tree of /repo (the observations are printed next to what was expected)."""
import json, os
from .core import build_driver, run_behaviours


def main(path):
    j = json.load(open(path))
    print("property : %s" % j["property"])
    print("signature: %s" % j["signature"])
    print("what     : %s" % j["what"][:3000])
    rep = j.get("replay", {})
    if "expected" in rep:
        print("expected : %s" % json.dumps(rep["expected"])[:2000])
    if "observed" in rep:
        print("observed (when found): %s" % json.dumps(rep["observed"])[:2000])
    if rep.get("trace_file"):
        print("recorded execution: %s   (bin/tracedebug <file> shows where it leaves the specification)" % rep["trace_file"])
    script = rep.get("script")
    if script:
        exe = build_driver("asan")
        res = run_behaviours(exe, [("replay", script)], "replay", per_timeout=120)
        g = res["replay"]
        print("---- re-executed against the current tree ----")
        if g["crash"]:
            print("%s: %s" % (g["crash"]["kind"], g["crash"]["detail"][:3000]))
        for l in g["lines"]:
            short = {k: v for k, v in l.items() if k in ("cmd", "ret", "diag", "cb", "out", "text")}
            print(json.dumps(short)[:600])
            if "ctx" in l:
                print("   ctx: %s" % json.dumps(l["ctx"])[:1200])
    return 0
