"""Leg B: record executions of the real library on random schemas / long random texts /
random API call sequences, and validate the recorded trace against the specification
(spec/Trace_Conf.tla) with TLC."""
import json, os, random, subprocess, time
from .core import enc, run_behaviours, ModelError, BUILD, SPEC, FLAGBITS
from .render import schema_lines, render_tokens, NULL
from .apicheck import call_cmd, OKRET

NAMES = ["a", "b", "c", "d", "e", "f", "g", "h"]
TITLES = ["a", "b", "t1", "x y"]
GOOD = {"int": ["0", "1", "2", "3", "5", "7", "010", "0x10", "0b11", "-4"],
        "float": ["1.5", "2.25", "-0.5", "1e2", "0", "1", "7", "010", "0x10", "-4"],
        "bool": ["true", "false", "yes", "off", "On"],
        "str": ["x", "y", "abc", "a b", "", "9x", "1", "true"]}
BADV = {"int": ["x", "1.5", "9x", "", "true"], "float": ["x", "9x", "", "0b11", "yes"], "bool": ["1", "x", "", "abc"]}
DEFS = {"int": ["0", "1", "7"], "float": ["1.5", "2.25"], "bool": ["true", "false"], "str": ["d", "x", NULL]}


def decl(name, ty, flags=(), df=(), sub=(), fn="", cb=()):
    return {"name": name, "type": ty, "flags": sorted(flags), "def": list(df), "sub": list(sub), "cb": sorted(cb), "fn": fn}


def gen_schema(rng, depth=0):
    n = rng.randint(2, 5 if depth == 0 else 3)
    names = rng.sample(NAMES, n)
    out = []
    for nm in names:
        r = rng.random()
        if depth == 0 and rng.random() < 0.08:
            # the value lives in a variable of the caller (CFG_SIMPLE_*); no default is ever applied
            ty = rng.choice(["int", "float", "bool", "str"])
            out.append(decl(nm, ty, {"SIMPLE"}, [{"int": "0", "float": "0", "bool": "false", "str": NULL}[ty]]))
            continue
        if r < 0.30 or depth >= 2:
            ty = rng.choice(["int", "float", "bool", "str"])
            fl = set()
            if rng.random() < 0.12:
                fl.add("NODEFAULT")
            if rng.random() < 0.1:
                fl.add("DEPRECATED")
                if rng.random() < 0.5:
                    fl.add("DROP")
            cb = set()
            if rng.random() < 0.2:
                cb.add("valid")
            if rng.random() < 0.15 and "DEPRECATED" not in fl:
                cb.add("parse")
            out.append(decl(nm, ty, fl, [rng.choice(DEFS[ty])], cb=cb))
        elif r < 0.34 and depth < 2:
            # a user-pointer option (value-parsing callback produces it, release callback takes it back)
            out.append(decl(nm, "ptr", {"LIST"} if rng.random() < 0.5 else set(), [], cb={"parse"}))
        elif r < 0.55:
            ty = rng.choice(["int", "float", "bool", "str"])
            fl = {"LIST"}
            df = [rng.choice([d for d in DEFS[ty] if d != NULL]) for _ in range(rng.randint(0, 2))]
            if rng.random() < 0.1:
                fl.add("NODEFAULT")
            if rng.random() < 0.08:
                fl |= {"DEPRECATED", "DROP"}
                df = []
            cb = set()
            if rng.random() < 0.2 and not df:      # (a parsed list default would run the callbacks inside cfg_init)
                cb.add("valid")
            if rng.random() < 0.15 and not df and "DEPRECATED" not in fl:
                cb.add("parse")
            out.append(decl(nm, ty, fl, df, cb=cb))
        elif r < 0.62:
            out.append(decl(nm, "func", fn="user"))
        elif r < 0.70:
            # a free-form section; its declared sub-sections are free-form too
            out.append(decl(nm, "sec", {"KEYSTRVAL"}, sub=gen_schema(rng, depth + 1) if depth < 2 and rng.random() < 0.4 else ()))
        else:
            kind = rng.choice([set(), {"MULTI"}, {"MULTI", "TITLE"}, {"MULTI", "TITLE", "NO_TITLE_DUPES"}])
            out.append(decl(nm, "sec", kind, sub=gen_schema(rng, depth + 1), cb={"valid"} if rng.random() < 0.15 else ()))
    return out


def T(k, v="", nl=0):
    return {"k": k, "v": v, "nl": nl, "nlin": 0}


def gen_value(rng, ty, bad_p=0.04):
    if ty == "ptr":
        return rng.choice(["x", "1", "abc"])
    if ty != "str" and rng.random() < bad_p:
        return rng.choice(BADV[ty])
    return rng.choice(GOOD[ty])


def gen_unknown(rng, depth=0):
    r = rng.random()
    nm = rng.choice(["zz", "yy"])
    if r < 0.35:
        return [T("str", nm), T(rng.choice(["=", "+="])), T("str", rng.choice(["1", "x"]))]
    if r < 0.5:
        return [T("str", nm), T("="), T("{"), T("str", "1"), T(","), T("str", "2"), T("}")]
    if r < 0.65:
        return [T("str", nm), T("("), T("str", "a"), T(","), T("str", "b"), T(")")]
    body = []
    if depth < 3:
        for _ in range(rng.randint(0, 2)):
            body += gen_unknown(rng, depth + 1)
    head = [T("str", nm)] + ([T("str", "t")] if rng.random() < 0.5 else []) + [T("{")]
    return head + body + [T("}")]


def gen_items(rng, decls, pcfg, depth=0, kv=False):
    toks = []
    n = rng.randint(0, 6 if depth == 0 else 3)
    for _ in range(n):
        if pcfg["comments"] is not None and rng.random() < 0.15:
            toks.append(T("cmt", "c%d" % rng.randint(1, 9)))
        if pcfg["ignore"] and rng.random() < 0.15:
            toks += gen_unknown(rng)
            continue
        if kv and rng.random() < 0.5:
            toks += [T("str", rng.choice(["k1", "k2", "k3"])), T("="), T("str", rng.choice(GOOD["str"]))]
            continue
        if not decls:
            continue
        d = rng.choice(decls)
        ty = d["type"]
        if ty == "func":
            args = []
            for i in range(rng.randint(0, 3)):
                if i:
                    args.append(T(","))
                args.append(T("str", rng.choice(["a", "b", "1"])))
            toks += [T("str", d["name"]), T("(")] + args + [T(")")]
        elif ty == "sec":
            head = [T("str", d["name"])]
            if "TITLE" in d["flags"]:
                head.append(T("str", rng.choice(TITLES)))
            toks += head + [T("{")] + gen_items(rng, d["sub"], pcfg, depth + 1, kv or "KEYSTRVAL" in d["flags"]) + [T("}")]
        elif "LIST" in d["flags"]:
            op = rng.choice(["=", "=", "+="])
            if rng.random() < 0.25:
                toks += [T("str", d["name"]), T(op), T("str", gen_value(rng, ty))]
            else:
                vals = []
                k = rng.randint(0, 4)
                for i in range(k):
                    if i:
                        vals.append(T(","))
                    vals.append(T("str", gen_value(rng, ty)))
                if k and rng.random() < 0.2:
                    vals.append(T(","))
                toks += [T("str", d["name"]), T(op), T("{")] + vals + [T("}")]
        else:
            toks += [T("str", d["name"]), T("="), T("str", gen_value(rng, ty))]
    return toks


def mutate(rng, toks):
    toks = list(toks)
    for _ in range(rng.randint(1, 2)):
        if not toks:
            break
        i = rng.randrange(len(toks))
        op = rng.random()
        if op < 0.4:
            del toks[i]
        elif op < 0.7:
            toks.insert(i, dict(toks[i]))
        elif i + 1 < len(toks):
            toks[i], toks[i + 1] = toks[i + 1], toks[i]
        else:
            toks.insert(i, T(rng.choice(["=", "{", "}", ",", "(", ")", "+="])))
    return toks


def gen_text(rng, schema, pcfg):
    toks = gen_items(rng, schema, pcfg)
    if rng.random() < 0.35:
        toks = mutate(rng, toks)
    for t in toks:
        t["nl"] = 1 if rng.random() < 0.3 else 0
    toks.append(T("eof", "", 1 if rng.random() < 0.5 else 0))
    return toks


def gen_call(rng, schema):
    # address: root or the first/second instance of a top-level section
    secs = [i for i, d in enumerate(schema) if d["type"] == "sec" and d["sub"]]
    sp, decls = [], schema
    if secs and rng.random() < 0.3:
        i = rng.choice(secs)
        sp = [{"oi": i + 1, "ii": rng.choice([1, 1, 2])}]
        decls = schema[i]["sub"]
    d = rng.choice(decls) if decls and rng.random() < 0.93 else {"name": "zz", "type": "int", "flags": []}
    ty, name, islist = d["type"], d["name"], "LIST" in d["flags"]
    r = rng.random()

    def call(op, idx=0, val="", vals=()):
        return {"op": op, "sp": sp, "name": name, "idx": idx, "val": val, "vals": list(vals)}
    canon = {"int": ["3", "4", "9", "-4"], "float": ["2.25", "1.5", "-0.5"], "bool": ["true", "false"], "str": ["v", "w", "a b", ""]}
    if ty == "sec":
        if r < 0.4:
            return call("addtsec", val=rng.choice(TITLES))
        if r < 0.7:
            return call("rmnsec", idx=rng.randint(0, 2))
        return call("rmtsec", val=rng.choice(TITLES))
    sty = ty if ty in canon else "int"
    if rng.random() < 0.08:
        sty = rng.choice(["int", "float", "bool", "str"])      # wrong type now and then
    if r < 0.35:
        return call("set" + sty, idx=0 if rng.random() < 0.85 else 1, val=rng.choice(canon[sty]))
    if r < 0.5:
        return call("setlist", vals=[rng.choice(canon[ty if ty in canon else "int"]) for _ in range(rng.randint(1, 3))])
    if r < 0.65:
        return call("addlist", vals=[rng.choice(canon[ty if ty in canon else "int"]) for _ in range(rng.randint(1, 2))])
    if r < 0.8:
        texts = [gen_value(rng, ty if ty in GOOD else "int", 0.15) for _ in range(rng.randint(1, 3) if islist else 1)]
        return call("setmulti", vals=texts)
    if r < 0.9:
        return call("setopt", val=gen_value(rng, ty if ty in GOOD else "int", 0.2))
    return call("setcomment", val=rng.choice(["note", "n2"]))


def fnum(hexs):
    f = float.fromhex(hexs)
    return str(int(f)) if f == int(f) and abs(f) < 1e15 else repr(f)


def conv_sec(sec):
    out = []
    for o in sec["o"]:
        ty = o["ty"]
        if ty == "sec":
            vs = [conv_sec(x) for x in o["v"]]
        elif ty == "float":
            vs = [fnum(x) for x in o["v"]]
        elif ty == "bool":
            vs = ["true" if x else "false" for x in o["v"]]
        elif ty == "str":
            vs = [NULL if x is None else x for x in o["v"]]
        elif ty == "int":
            vs = list(o["v"])
        elif ty == "ptr":
            vs = [NULL if x is None else "ptr%d" % x["id"] for x in o["v"]]
        else:
            vs = [NULL if x is None else str(x) for x in o["v"]]
        out.append({"n": o["n"], "ty": ty, "v": vs, "mod": bool(o["fl"] & FLAGBITS["MODIFIED"]),
                    "reset": bool(o["fl"] & FLAGBITS["RESET"]), "c": NULL if o["c"] is None else o["c"]})
    return {"t": NULL if sec["t"] is None else sec["t"], "o": out}


def run(verdict, exe, n_exec, seed, tag="trace", texts_per=3, calls_per=12):
    rng = random.Random(seed)
    plans, scripts = [], []
    for n in range(n_exec):
        schema = gen_schema(rng)
        pcfg = {"nocase": False, "comments": rng.random() < 0.5, "ignore": rng.random() < 0.3,
                "failParse": rng.choice([0, 0, 0, 1, 2, 4]), "failValid": rng.choice([0, 0, 0, 1, 3]), "failFunc": rng.choice([0, 0, 0, 1, 2])}
        flags = (FLAGBITS["COMMENTS"] if pcfg["comments"] else 0) | (FLAGBITS["IGNORE_UNKNOWN"] if pcfg["ignore"] else 0)
        steps = []
        lines = schema_lines("S", schema)
        for kind, key in (("parse", "failParse"), ("valid", "failValid"), ("func", "failFunc")):
            if pcfg[key]:
                lines.append("failat %s %d" % (kind, pcfg[key]))
        lines.append("init c1 S %d" % flags)
        nfile = [0]

        def parse_cmd(text):
            # the three entry points take turns: buffer, stream, file
            r = rng.random()
            if r < 0.6:
                return ["parsebuf c1 %s" % enc(text)]
            if r < 0.8:
                return ["parsefp c1 %s" % enc(text)]
            nfile[0] += 1
            return ["fs file $R/t%d.conf %s" % (nfile[0], enc(text)), "parsefile c1 $R/t%d.conf" % nfile[0]]
        for _ in range(rng.randint(1, texts_per)):
            toks = gen_text(rng, schema, pcfg)
            try:
                text = render_tokens(toks, rng, canonical=False)
            except ValueError:
                continue
            steps.append(("Parse", toks))
            lines += parse_cmd(text)
        for _ in range(rng.randint(0, calls_per)):
            c = gen_call(rng, schema)
            steps.append(("Call", c))
            lines.append(call_cmd(c, schema))
        if rng.random() < 0.5:
            toks = gen_text(rng, schema, pcfg)
            try:
                text = render_tokens(toks, rng, canonical=False)
                steps.append(("Parse", toks))
                lines += parse_cmd(text)
            except ValueError:
                pass
        if rng.random() < 0.6:
            steps.append(("Print", None))
            lines.append("print c1")
        lines.append("free c1")
        plans.append((schema, pcfg, steps))
        scripts.append(("t%d" % n, "\n".join(lines)))
    results = run_behaviours(exe, scripts, tag, chunk=100)
    events = []
    index = []          # (first line, last line, execution number)
    for n, (schema, pcfg, steps) in enumerate(plans):
        g = results.get("t%d" % n)
        if g is None:
            raise ModelError("no output")
        if g["crash"]:
            verdict.violation("trace:crash:exec%d" % n, "random execution %d (seed %d): %s :: %s" % (n, seed, g["crash"]["kind"], g["crash"]["detail"][:1000]),
                              {"schema": schema, "steps": steps})
            continue
        lines = [l for l in g["lines"] if l["cmd"] != "free"]
        if len(lines) != len(steps) + 1:
            raise ModelError("trace: observation count mismatch")
        first = len(events) + 1
        events.append({"e": "Reset"})
        events.append({"e": "Init", "schema": schema, "pcfg": pcfg, "obs": conv_sec(lines[0]["ctx"]["c1"])})
        for (kind, arg), line in zip(steps, lines[1:]):
            obs = conv_sec(line["ctx"]["c1"])
            if kind == "Print":
                ls = line["text"].split("\n")
                if ls and ls[-1] == "":
                    ls.pop()
                from .printnorm import respec
                # layout (white space, indentation width) is not part of the properties: the observed
                # lines are re-rendered token for token in the printer model's layout
                events.append({"e": "Print", "lines": respec(ls)})
            elif kind == "Parse":
                d = line["diag"]
                cbs = []
                for c in line["cb"]:
                    if c["k"] == "parse":
                        cbs.append({"k": "parse", "o": c["o"], "v": c["v"] if c["v"] is not None else NULL, "argv": [], "nvals": 0})
                    elif c["k"] == "func":
                        cbs.append({"k": "func", "o": c["o"], "v": "", "argv": c["argv"], "nvals": 0})
                    elif c["k"] == "valid":
                        cbs.append({"k": "valid", "o": c["o"], "v": "", "argv": [], "nvals": len(c["vals"])})
                freed = ["ptr%d" % c["id"] for c in line["cb"] if c["k"] == "free"]
                events.append({"e": "Parse", "toks": arg, "ret": line["ret"], "obs": obs, "ndiag": len(d), "cb": cbs, "freed": freed,
                               # the name the diagnostic must carry follows from the entry point: normalised to "buf"
                               "dfile": ("buf" if d and d[0]["file"] == {"parsebuf": "[buf]", "parsefp": "FILE"}.get(
                                   line["cmd"], (g["begin"].get("scratch") or "") + "/t%d.conf" % sum(1 for x in g["lines"][:g["lines"].index(line) + 1] if x["cmd"] == "parsefile"))
                                         else (d[0]["file"] if d else "")) or "",
                               "dline": d[0]["line"] if d else 0})
            else:
                okv, _ = OKRET.get(arg["op"], (0, -1))
                events.append({"e": "Call", "call": arg, "ret": line["ret"], "ok": line["ret"] == okv, "obs": obs})
        index.append((first, len(events), n))
        if g["end"] and g["end"]["live"] != g["begin"]["live"]:
            verdict.violation("trace:leak:exec%d" % n, "random execution %d (seed %d): heap blocks still live after cfg_free" % (n, seed), {"schema": schema})
    return validate(verdict, events, index, plans, seed, tag)


def validate(verdict, events, index, plans, seed, tag):
    d = os.path.join(BUILD, "trace")
    os.makedirs(d, exist_ok=True)
    path = os.path.join(d, "%s-%d-%d.ndjson" % (tag, seed, os.getpid()))
    with open(path, "w") as f:
        for e in events:
            f.write(json.dumps(e) + "\n")
    ok, consumed, wall = tlc_trace(path)
    verdict.cov["trace_events"] = verdict.cov.get("trace_events", 0) + len(events)
    verdict.cov["trace_callback_invocations"] = verdict.cov.get("trace_callback_invocations", 0) + sum(len(e.get("cb", [])) for e in events)
    verdict.cov["trace_accepted_parses"] = verdict.cov.get("trace_accepted_parses", 0) + sum(1 for e in events if e["e"] == "Parse" and e["ret"] == 0)
    verdict.cov["trace_rejected_parses"] = verdict.cov.get("trace_rejected_parses", 0) + sum(1 for e in events if e["e"] == "Parse" and e["ret"] != 0)
    verdict.cov["trace_executions"] = verdict.cov.get("trace_executions", 0) + len(index)
    verdict.cov["traces_validated_against_impl"] += len(index)
    if ok:
        os.unlink(path)
        return True
    # the first unexplained line; re-validate that execution alone to confirm
    bad = consumed + 1
    ex = [(a, b, n) for (a, b, n) in index if a <= bad <= b]
    if not ex:
        raise ModelError("trace rejected at line %d which is outside every execution" % bad)
    a, b, n = ex[0]
    alone = os.path.join(d, "%s-%d-exec%d.ndjson" % (tag, seed, n))
    with open(alone, "w") as f:
        for e in events[a - 1:b]:
            f.write(json.dumps(e) + "\n")
    ok2, consumed2, _ = tlc_trace(alone)
    if ok2:
        raise ModelError("trace rejection at line %d did not repeat when execution %d was validated alone" % (bad, n))
    ev = events[a - 1 + consumed2]
    what = "recorded execution %d (seed %d) is not a behaviour of the specification: event %d (%s %s) returned %r with an observation the specification does not allow" % (
        n, seed, consumed2 + 1, ev["e"], json.dumps(ev.get("call") or render_tokens(ev.get("toks", [])) if ev["e"] != "Init" else "", default=str)[:200], ev.get("ret"))
    verdict.violation("trace:exec%d:event%d" % (n, consumed2 + 1), what, {"trace_file": alone, "event": ev, "schema": plans[n][0]})
    return False


def tlc_trace(path):
    import re, shutil, random as _r
    md = os.path.join(BUILD, "tlc", "trace-%d-%d" % (os.getpid(), _r.randrange(1 << 30)))
    os.makedirs(md, exist_ok=True)
    cp = "/opt/veriftools/tla/tla2tools.jar:/opt/veriftools/tla/CommunityModules-deps.jar"
    cmd = ["timeout", "1800", "java", "-Xss512m", "-XX:+UseParallelGC", "-cp", cp, "tlc2.TLC", "-workers", "1", "-metadir", md,
           "-config", os.path.join("trace", "Trace_Conf.cfg"), "-noGenerateSpecTE", "Trace_Conf.tla"]
    env = dict(os.environ, TRACE=path)
    t0 = time.time()
    r = subprocess.run(cmd, cwd=SPEC, capture_output=True, text=True, env=env)
    shutil.rmtree(md, ignore_errors=True)
    out = r.stdout
    m = re.search(r"(\d[\d,]*) states generated", out)
    gen = int(m.group(1).replace(",", "")) if m else 0
    if "Postcondition" in out and "is false" in out or "TraceAccepted" in out and "violated" in out:
        # states generated counts the initial state plus one per consumed line
        d = re.search(r"depth of the complete state graph search is (\d+)", out)
        depth = int(d.group(1)) if d else gen
        return False, depth - 1, time.time() - t0
    if r.returncode != 0:
        raise ModelError("trace validation failed to run (rc=%d):\n%s" % (r.returncode, out[-3000:]))
    return True, gen - 1, time.time() - t0


def selftest_binding(verdict, exe, seed, tag="tracebind"):
    """demonstrated binding: a recorded, accepted execution with ONE observed value corrupted, and
    the same execution with one event removed, must both be rejected by the trace specification"""
    rng = random.Random(seed + 991)
    v2 = type(verdict)("SELFTEST", verdict.tier, seed)
    v2.violations = []
    # record a small trace
    plans_backup = []
    d = os.path.join(BUILD, "trace")
    os.makedirs(d, exist_ok=True)
    tmpv = type("V", (), {"cov": {"traces_validated_against_impl": 0}, "violation": lambda self, *a: None})()
    events_holder = {}
    orig_validate = globals()["validate"]

    def capture(verd, events, index, plans, sd, tg):
        events_holder["events"], events_holder["index"] = events, index
        return True
    globals()["validate"] = capture
    try:
        run(tmpv, exe, 12, seed + 991, tag=tag, texts_per=2, calls_per=6)
    finally:
        globals()["validate"] = orig_validate
    events = events_holder["events"]
    path = os.path.join(d, "%s-%d-base.ndjson" % (tag, os.getpid()))

    def write(evs, p):
        with open(p, "w") as f:
            for e in evs:
                f.write(json.dumps(e) + "\n")
    write(events, path)
    ok, _, _ = tlc_trace(path)
    if not ok:
        os.unlink(path)
        return "base trace rejected (see the regular run)"
    # corrupt: an accepted Parse or successful Call whose obs has an int/str value
    done = []
    for mode in ("corrupt", "drop"):
        evs = json.loads(json.dumps(events))
        cand = [i for i, e in enumerate(evs) if e["e"] in ("Parse", "Call") and e.get("ret") == 0 and
                any(o["v"] and o["ty"] in ("int", "str") for o in e["obs"]["o"])]
        # only events that are judged: the first such event of an execution (before anything can mark it dead)
        good = None
        for i in cand:
            j = i - 1
            while j >= 0 and evs[j]["e"] not in ("Init",):
                j -= 1
            if all(x["e"] == "Init" or (x["e"] == "Parse" and x["ret"] == 0) for x in evs[j:i]):
                good = i
                break
        if good is None:
            done.append("%s: no candidate" % mode)
            continue
        if mode == "corrupt":
            o = [o for o in evs[good]["obs"]["o"] if o["v"] and o["ty"] in ("int", "str")][0]
            o["v"][0] = o["v"][0] + "9"
        else:
            # remove an event that changed something and is followed by a judged event
            drop = None
            for i in cand:
                if i + 1 < len(evs) and evs[i + 1]["e"] in ("Parse", "Call") and evs[i - 1].get("obs") is not None \
                        and json.dumps(evs[i]["obs"]) != json.dumps(evs[i - 1]["obs"]) \
                        and json.dumps(evs[i + 1]["obs"]) == json.dumps(evs[i]["obs"]):
                    drop = i
                    break
            if drop is None:
                done.append("drop: no candidate")
                continue
            del evs[drop]
        p2 = os.path.join(d, "%s-%d-%s.ndjson" % (tag, os.getpid(), mode))
        write(evs, p2)
        ok2, _, _ = tlc_trace(p2)
        os.unlink(p2)
        done.append("%s: %s" % (mode, "rejected" if not ok2 else "ACCEPTED"))
        if ok2 and mode == "corrupt":
            os.unlink(path)
            raise ModelError("binding self-test failed: a trace with a corrupted observation was accepted")
    os.unlink(path)
    return "; ".join(done)
