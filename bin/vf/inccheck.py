"""Leg A for MC_Inc (C13, and the include parts of C06/C07/C08): the model's file system is
realised as real files under the scratch root; behaviours are replayed by parsecheck."""
from .core import enc, run_behaviours, ModelError
from .render import render_tokens, schema_lines
from . import parsecheck


def fs_lines(fs):
    lines = []
    for name, ent in sorted(fs.items()):
        if ent["kind"] == "dir":
            lines.append("fs dir %s" % enc(name))
        else:
            lines.append("fs file %s %s" % (enc(name), enc(render_tokens(ent["toks"]) + "\n" if False else render_tokens(ent["toks"]))))
    return lines


def replay(verdict, exe, res, aspects, seed=0, tag="inc"):
    fs = res.extra["FS"][0]
    extra = fs_lines(fs)
    n = parsecheck.replay(verdict, exe, res, aspects=set(aspects) | {"balance"}, seed=seed, renderings=("canonical",), tag=tag,
                          extra_before=extra, sigprefix="include")
    if "tree" in aspects:
        scenarios(verdict, exe, res, extra, tag)
        replay_relative(verdict, exe, res, aspects, seed=seed, tag=tag + "rel")
    return n


def relativize(obj):
    """the same behaviours with every include name made relative: the files live in a directory
    that is only reachable through the context's search path"""
    if isinstance(obj, dict):
        return {k: relativize(v) for k, v in obj.items()}
    if isinstance(obj, list):
        return [relativize(v) for v in obj]
    if isinstance(obj, str) and obj.startswith("$R/"):
        return obj[3:]
    return obj


def replay_relative(verdict, exe, res, aspects, seed=0, tag="increl"):
    import copy
    fs = res.extra["FS"][0]
    extra = ["fs dir $R/incdir"]
    for name, ent in sorted(fs.items()):
        rel = name[3:]
        if ent["kind"] == "dir":
            extra.append("fs dir %s" % enc("$R/incdir/" + rel))
        else:
            extra.append("fs file %s %s" % (enc("$R/incdir/" + rel), enc(render_tokens(relativize(ent["toks"])))))
    extra.append("searchpath c1 $R/incdir")
    r2 = copy.copy(res)
    r2.behaviours = []
    for b in res.behaviours:
        if not any(t["v"] == "include" for p0 in b["parses"] for t in p0["toks"]):
            continue        # identical to the first pass
        nb = relativize(b)
        for p in nb["parses"]:
            d1 = p["exp"]["diag1"]
            if d1["file"] not in ("buf", "<NULL>"):
                d1["file"] = "$R/incdir/" + d1["file"]
        r2.behaviours.append(nb)
    return parsecheck.replay(verdict, exe, r2, aspects=set(aspects) | {"balance"}, seed=seed, renderings=("canonical",), tag=tag,
                             extra_before=extra, sigprefix="include-searchpath")


def scenarios(verdict, exe, res, extra, tag):
    """hand-picked multi-parse histories whose expected outcome follows from the model:
    repeated failing includes followed by a succeeding one; the same file found through the search path"""
    schema = schema_lines("S", res.schemas[1])
    scripts = []
    bad = 'include("$R/fe.conf")'
    deep = 'include("$R/k1.conf")'
    good = 'include("$R/f1.conf")'
    lines = schema + ["init c1 S 0"] + extra
    for k in range(12):
        lines.append("parsebuf c1 %s" % enc(bad if k % 2 == 0 else deep))
    lines += ["parsebuf c1 %s" % enc(good), "parsebuf c1 %s" % enc('include("$R/k2.conf")'), "free c1"]
    scripts.append(("sc0", "\n".join(lines)))
    # relative names through the search path: first directory added wins, absolute names bypass it
    lines = schema + ["init c1 S 0", "fs dir $R/d1", "fs dir $R/d2", "fs file $R/d1/r.conf %s" % enc("i = 11"),
                      "fs file $R/d2/r.conf %s" % enc("i = 22"), "fs file $R/d2/only2.conf %s" % enc("s = two"),
                      "searchpath c1 $R/d1", "searchpath c1 $R/d2",
                      "parsebuf c1 %s" % enc('include("r.conf")\ninclude(only2.conf)'),
                      "parsebuf c1 %s" % enc('include("$R/d2/r.conf")'),
                      "parsebuf c1 %s" % enc('include("missing.conf")'),
                      "parsebuf c1 %s" % enc('include("d1")'), "free c1"]
    scripts.append(("sc1", "\n".join(lines)))
    lines = schema + ["init c1 S 0", "fs dir $R/da", "fs dir $R/db", "fs file $R/db/onlyb.conf %s" % enc("x = 42"),
                      "fs file $R/da/ina.conf %s" % enc("x = 41"),
                      "searchpath c1 $R/da", "parsebuf c1 %s" % enc('sec { include("ina.conf") }'),
                      "searchpath c1 $R/db", "parsebuf c1 %s" % enc('sec { include("onlyb.conf") }'),
                      "free c1"]
    scripts.append(("sc2", "\n".join(lines)))
    results = run_behaviours(exe, scripts, tag + "sc", per_timeout=30)
    g = results["sc2"]
    verdict.cov["traces_validated_against_impl"] += 1
    if g["crash"]:
        verdict.violation("include:scenario-late-searchpath:%s" % g["crash"]["kind"], "search path extended between parses: %s" % g["crash"]["detail"][:800], {})
    else:
        pl = [l for l in g["lines"] if l["cmd"] == "parsebuf"]
        xs = [[o for o in [s0 for s0 in l["ctx"]["c1"]["o"] if s0["n"] == "sec"][0]["v"][0]["o"] if o["n"] == "x"][0]["v"] for l in pl]
        if [l["ret"] for l in pl] != [0, 0] or xs != [["41"], ["42"]]:
            verdict.violation("include:scenario-late-searchpath",
                              "a directory added to the search path after the first parse is not used by include() inside a section that "
                              "was already entered once: return codes %s, sec|x = %s (expected [0, 0], 41 then 42)" % ([l["ret"] for l in pl], xs), {})
    g = results["sc0"]
    verdict.cov["traces_validated_against_impl"] += 2
    if g["crash"]:
        verdict.violation("include:scenario-failing-includes:%s" % g["crash"]["kind"], "repeated failing includes: %s" % g["crash"]["detail"][:800], {})
    else:
        pl = [l for l in g["lines"] if l["cmd"] == "parsebuf"]
        rets = [l["ret"] for l in pl]
        ival = [o for o in pl[-1]["ctx"]["c1"]["o"] if o["n"] == "i"][0]["v"]
        if rets != [1] * 12 + [0, 0] or ival != ["3"] or g["end"]["incsp"] != 0 or g["end"]["fds"] != g["begin"]["fds"]:
            verdict.violation("include:scenario-failing-includes",
                              "12 failing includes followed by succeeding ones: return codes %s, i=%s, include stack %d, descriptors %d->%d "
                              "(expected 12 x 1 then 0, 0; i=3; lasting loss of include capacity otherwise)" % (
                                  rets, ival, g["end"]["incsp"], g["begin"]["fds"], g["end"]["fds"]), {})
    g = results["sc1"]
    if g["crash"]:
        verdict.violation("include:scenario-searchpath:%s" % g["crash"]["kind"], "include through the search path: %s" % g["crash"]["detail"][:800], {})
    else:
        pl = [l for l in g["lines"] if l["cmd"] == "parsebuf"]
        def val(l, n):
            return [o for o in l["ctx"]["c1"]["o"] if o["n"] == n][0]["v"]
        probs = []
        if pl[0]["ret"] != 0 or val(pl[0], "i") != ["11"] or val(pl[0], "s") != ["two"]:
            probs.append("relative include: ret %d i=%s s=%s (expected 0, 11 from the first directory added, 'two')" % (pl[0]["ret"], val(pl[0], "i"), val(pl[0], "s")))
        if pl[1]["ret"] != 0 or val(pl[1], "i") != ["22"]:
            probs.append("absolute include: ret %d i=%s (expected 0, 22)" % (pl[1]["ret"], val(pl[1], "i")))
        if pl[2]["ret"] != 1 or not pl[2]["diag"]:
            probs.append("missing file through the search path: ret %d, %d diagnostics" % (pl[2]["ret"], len(pl[2]["diag"])))
        if pl[3]["ret"] != 1 or not pl[3]["diag"]:
            probs.append("directory through the search path: ret %d" % pl[3]["ret"])
        if probs:
            verdict.violation("include:scenario-searchpath", "; ".join(probs), {})
