"""Per-property checks.  Each returns the process exit code (0 ok, 1 violation, 2 machinery broken)."""
import os, sys, json, time, traceback
from .core import (ModelError, Verdict, build_driver, run_tlc, SPEC, VERIF)
from . import parsecheck


def seed_of():
    try:
        return int(os.environ.get("VERIF_SEED", "1"))
    except ValueError:
        return 1


def tlc_parse(v, cfgname, invariants, **kw):
    res = run_tlc("MC_Parse.tla", os.path.join("mc", cfgname), **kw)
    v.add_tlc(cfgname, res, invariants)
    return res


INV_PARSE = ["P_C01_ViablePrefix", "P_C01_AcceptIffGrammar", "P_C06_Reported", "P_C07_ReleasedOnce", "P_C02_DepthBounded"]


def check_C01(tier, seed):
    v = Verdict("C01", tier, seed)
    exe = build_driver("asan")
    cfgs = ["C01_quick.cfg"] if tier == "quick" else ["C01_quick.cfg"]
    for c in cfgs:
        res = tlc_parse(v, c, INV_PARSE)
        parsecheck.replay(v, exe, res, aspects={"tree", "diag"}, seed=seed,
                          renderings=("canonical", "varied"), tag="C01")
    v.cov["exhaustive"] = True
    return v.finish(rule="every token sequence up to the configured length over the schema's alphabet (TLC BFS); "
                         "a behaviour is non-trivial when it is accepted or longer than one token; each is parsed "
                         "by the real library in a canonical and a seeded varied rendering and the full getter tree is compared")


CHECKS = {"C01": check_C01}


def main(argv):
    if len(argv) >= 2 and argv[0] == "--replay":
        print(open(argv[1]).read())
        return 0
    if len(argv) < 1:
        print(__doc__)
        return 2
    prop = argv[0]
    tier = argv[1] if len(argv) > 1 else os.environ.get("VERIF_TIER", "quick")
    if prop not in CHECKS:
        print("unknown property %s" % prop)
        return 2
    try:
        return CHECKS[prop](tier, seed_of())
    except ModelError as e:
        print("CHECK-BROKEN property=%s: %s" % (prop, e))
        return 2
    except Exception:
        traceback.print_exc()
        print("CHECK-BROKEN property=%s: internal error" % prop)
        return 2
