"""Per-property checks.  Each returns the process exit code (0 ok, 1 violation, 2 machinery broken)."""
import os, sys, json, time, traceback
from .core import (ModelError, Verdict, build_driver, run_tlc, SPEC, VERIF)
from . import parsecheck, apicheck, printcheck, lexcheck, stress, numcheck, pathcheck


def seed_of():
    try:
        return int(os.environ.get("VERIF_SEED", "1"))
    except ValueError:
        return 1


def cfgs(tier, quick, thorough_extra=()):
    """quick configs always run; the thorough tier adds deeper ones"""
    return list(quick) + (existing(thorough_extra) if tier == "thorough" else [])


def existing(names):
    return [n for n in names if os.path.exists(os.path.join(SPEC, "mc", n))]


INV_PARSE = ["P_C01_ViablePrefix", "P_C01_AcceptIffGrammar", "P_C06_Reported", "P_C07_ReleasedOnce", "P_C02_DepthBounded"]
INV_LINES = INV_PARSE + ["P_C06_Position", "P_C15_Transparent", "P_C15_Annotation"]
INV_IGNORE = ["P_C01_ViablePrefix", "P_C01_AcceptIffGrammar", "P_C12_Silent", "P_C12_RejectedWithout", "P_C06_Reported", "P_C02_DepthBounded"]
INV_CB = ["P_C14_VerdictBinds", "P_C14_StoredIsProduced", "P_C14_ValidateSeesValue", "P_C06_Reported", "P_C07_ReleasedOnce", "P_C02_DepthBounded"]
PROPS_API = ["P_C09_TitlesUnique", "P_C09_AppendKeeps", "P_C09_RemoveKeepsOrder", "P_C10_FailNoEffect",
             "P_C09_Modified", "P_C09_BadCallsFail", "P_C07_Ledger"]
INV_PRINT = ["P_C19_ExactlyOnceInOrder", "P_C19_Nesting", "P_C19_UnsetCommentedOut", "P_C19_PrintCb"]
INV_LEX = ["P_C02_Total", "P_C02_Progress", "P_C03_RulesMeanRef", "P_C03_NoExpandInSQ", "P_C03_CommentsSilent",
           "P_C06_Lines", "P_C02_ReturnsVerdict", "P_C05_StrRoundTrip"]
INV_PATH = ["P_C11_Agree", "P_C11_GoodResolve", "P_C11_FirstInstance"]


def tlc_parse(v, cfgname, invariants, **kw):
    res = run_tlc("MC_Parse.tla", os.path.join("mc", cfgname), **kw)
    v.add_tlc(cfgname, res, invariants)
    return res


def tlc_api(v, cfgname):
    res = run_tlc("MC_Api.tla", os.path.join("mc", cfgname))
    v.add_tlc(cfgname, res, PROPS_API)
    for e in res.errors:
        if "Action property" in e or "is violated" in e:
            v.violation("spec:%s:%s" % (cfgname, e[:80]), "TLC: %s in %s" % (e, cfgname), {"tlc_tail": res.raw_tail})
    return res


def run_nest(v, exe, tier, seed, tag):
    """re-entrant parsing (MC_Nest): a function callback parses a named text into a second live context while the first
    parse is running - at top level or inside an included file; the nested text may call functions, include, or fail"""
    from . import nestcheck
    c = "nest_quick.cfg" if tier == "quick" else "nest_thorough.cfg"
    res = run_tlc("MC_Nest.tla", os.path.join("mc", c))
    v.add_tlc(c, res, ["P_C08_NestedLeavesNoTrace", "P_C13_GoesOn", "P_C14_OwnArguments"])
    nestcheck.replay(v, exe, res, seed=seed, tag=tag)


def run_lex(v, exe, cfglist, seed, tag):
    for c in cfglist:
        res = run_tlc("MC_Lex.tla", os.path.join("mc", c))
        v.add_tlc(c, res, INV_LEX)
        lexcheck.replay(v, exe, res, seed=seed, tag=tag)


# --------------------------------------------------------------------------
def check_C01(tier, seed):
    v = Verdict("C01", tier, seed)
    exe = build_driver("asan")
    for c in cfgs(tier, ["C01_quick.cfg", "C01_nocase_titles.cfg", "C01_lists.cfg", "C01_drop.cfg", "C01_simple.cfg", "C01_kvnest.cfg"], ["C01_len7.cfg", "C01_two_parses.cfg"]):
        res = tlc_parse(v, c, INV_PARSE)
        # canonical and seeded varied rendering through cfg_parse_buf; the same bytes through cfg_parse_fp
        # (a stream) and cfg_parse (a file) must give the same result
        parsecheck.replay(v, exe, res, aspects={"tree", "diag"}, seed=seed,
                          renderings=("canonical", "varied", "fp", "file") if c == "C01_quick.cfg" else ("canonical", "varied"), tag="C01")
    # the same under the ignore-unknown context flag (undeclared items, nested, at every level)
    for c in ("ignore_quick.cfg", "ignore_kv.cfg"):       # (ignore_kv: a free-form section in such a context)
        res = tlc_parse(v, c, INV_IGNORE)
        parsecheck.replay(v, exe, res, aspects={"tree", "diag"}, seed=seed, renderings=("canonical",), tag="C01ign")
    # leg B: recorded executions on random schemas with long random texts, validated against the specification
    from . import tracegen
    tracegen.run(v, exe, 120 if tier == "quick" else 2500, seed, tag="C01trace", texts_per=4, calls_per=3)
    if tier == "thorough":
        v.notes.append("binding self-test: " + tracegen.selftest_binding(v, exe, seed))
    v.cov["exhaustive"] = True
    return v.finish(rule="every token sequence up to the configured length over the schema's alphabet (TLC BFS) for eight schemas "
                         "(flat, sections, unique titles / free-form / deprecated / no-default, three levels + function, case-insensitive "
                         "names, case-insensitive titles, consecutive lists); a behaviour is non-trivial when it is accepted or longer than "
                         "one token; each is parsed by the real library (canonical and seeded varied rendering) and the full getter tree compared")


def check_C06(tier, seed):
    v = Verdict("C06", tier, seed)
    exe = build_driver("asan")
    for c in cfgs(tier, ["lines_quick.cfg"], ["lines_thorough.cfg"]):
        res = tlc_parse(v, c, INV_LINES)
        parsecheck.replay(v, exe, res, aspects={"diag", "diagpos"}, seed=seed,
                          renderings=("varied", "fp", "file") if tier == "quick" else ("canonical", "varied", "fp", "file"), tag="C06")
    # errors three sections deep (plain sections that exist from cfg_init on): reported through the error function like any other
    res3 = tlc_parse(v, "C06_nested.cfg", INV_PARSE)
    parsecheck.replay(v, exe, res3, aspects={"diag", "diagpos"}, seed=seed, renderings=("canonical",), tag="C06nest")
    # diagnostics issued by a refusing validation callback (on an option, on a section after its body) carry the position too
    res2 = tlc_parse(v, "cblines_quick.cfg", ["P_C06_Reported", "P_C06_Position"])
    parsecheck.replay(v, exe, res2, aspects={"diag", "diagpos", "cb"}, seed=seed, renderings=("canonical",), tag="C06cb")
    # the rejected texts again, after an empty text (newlines, a comment) parsed into the same context through a different
    # entry point (file then buffer, buffer then stream, stream then file): file name and line numbering are the text's own
    res.behaviours = [b for b in res.behaviours if b["parses"][0]["exp"]["status"] == "fail"]
    parsecheck.replay(v, exe, res, aspects={"diag", "diagpos"}, seed=seed, renderings=("mix0", "mix1", "mix2"), tag="C06two")
    # scanner level: the line counter through every start condition (comments with stars, multi-line strings, continuations)
    run_lex(v, exe, cfgs(tier, ["lex_comment_quick.cfg", "lex_lines_quick.cfg", "lex_env_quick.cfg", "lex_dqenv_quick.cfg"], ["lex_comment_thorough.cfg"]), seed, "C06")
    res = run_tlc("MC_Inc.tla", os.path.join("mc", "inc_quick.cfg")) if os.path.exists(os.path.join(SPEC, "MC_Inc.tla")) else None
    if res is not None:
        from . import inccheck
        v.add_tlc("inc_quick.cfg", res, ["P_C13_Flatten", "P_C13_PositionRestored"])
        # positions across include files: the rejected texts that contain an include
        res.behaviours = [b for b in res.behaviours if b["parses"][0]["exp"]["status"] == "fail"
                          and any(t["v"] == "include" for t in b["parses"][0]["toks"])]
        inccheck.replay(v, exe, res, aspects={"diag", "diagpos"}, seed=seed, tag="C06")
    v.cov["exhaustive"] = True
    return v.finish(rule="every token sequence up to the configured length with a line break choice before every token, "
                         "multi-line comments and strings; every byte string over the comment / string class representatives (line "
                         "counter); include trees; non-trivial = rejected text (its first diagnostic's file and line are compared) "
                         "or accepted text (must be silent)")


def check_C15(tier, seed):
    v = Verdict("C15", tier, seed)
    exe = build_driver("asan")
    for c in cfgs(tier, ["comments_quick.cfg", "comments_long.cfg", "comments_list.cfg", "comments_star.cfg", "ignorecmt_small.cfg"], ["comments_thorough.cfg"]):
        # (ignorecmt_small: comments next to discarded undeclared items, annotation support on)
        res = tlc_parse(v, c, INV_IGNORE if "ignorecmt" in c else INV_LINES)
        if "long" in c or "list" in c or "star" in c:
            # annotations next to long quoted values: only the runs with annotation support on matter here
            res.behaviours = [b for b in res.behaviours if b["pcfg"]["comments"]]
        parsecheck.replay(v, exe, res, aspects={"tree", "diag"}, seed=seed,
                          renderings=("varied",) if c == "comments_quick.cfg" else ("canonical",), tag="C15")
        if "list" in c or "star" in c:
            # the annotation is written by print and read back by a re-parse (print -> parse -> compare -> print)
            res.behaviours = [b for b in res.behaviours if b["parses"][-1]["exp"]["status"] == "ok"]
            parsecheck.replay(v, exe, res, aspects={"roundtrip"}, seed=seed, renderings=("canonical",), tag="C15rt")
    # scanner level: a line comment ends at the end of its line, whatever its last character is
    run_lex(v, exe, ["lex_slashbs_quick.cfg"], seed, "C15")
    v.cov["exhaustive"] = True
    return v.finish(rule="every token sequence up to the configured length with comment tokens (empty and non-empty, "
                         "all three styles chosen by the renderer) at every token boundary, annotation support on and off")


def check_C12(tier, seed):
    v = Verdict("C12", tier, seed)
    exe = build_driver("asan")
    for c in cfgs(tier, ["ignore_quick.cfg", "ignore_kv.cfg", "ignore_two.cfg", "ignore_dep.cfg", "ignore_nocaseopt.cfg", "ignorecmt_small.cfg"], ["ignore_comments.cfg", "ignore_thorough.cfg"]):
        res = tlc_parse(v, c, INV_IGNORE)
        if c == "ignore_two.cfg":
            res.behaviours = [b for b in res.behaviours if len(b["parses"]) == 2]
        parsecheck.replay(v, exe, res, aspects={"tree", "diag", "balance"}, seed=seed,
                          renderings=("canonical",), tag="C12")
    stress.run(v, exe, tier, tag="C12", only=("deep-unknown",))
    v.cov["exhaustive"] = True
    return v.finish(rule="every token sequence up to the configured length over the schema's alphabet plus an undeclared name, "
                         "parsed with CFGF_IGNORE_UNKNOWN (single, multi and titled declared sections); malformed undeclared items are "
                         "outside the property (status unspec: only crash/leak checked); plus 10^5-deep nesting instances")


def check_C14(tier, seed):
    v = Verdict("C14", tier, seed)
    exe = build_driver("asan")
    for c in cfgs(tier, ["callbacks_quick.cfg", "callbacks_drop.cfg"], ["callbacks_thorough.cfg"]):
        res = tlc_parse(v, c, INV_CB)
        parsecheck.replay(v, exe, res, aspects={"tree", "tree_rejected", "diag", "cb"}, seed=seed,
                          renderings=("canonical",), tag="C14")
    # the pre-set validation callback of the by-name setters: veto and rewrite
    for c in ["api_veto2_quick.cfg", "api_rewrite_quick.cfg", "api_rewrite2_quick.cfg"]:
        res = tlc_api(v, c)
        res.behaviours = [b for b in res.behaviours if b["calls"][-1]["call"]["name"] in ("vi", "vs", "vf")]
        apicheck.replay(v, exe, res, aspects={"tree", "cb", "noeffect"}, seed=seed, tag="C14", sigprefix="api")
    run_nest(v, exe, tier, seed, "C14nest")
    v.cov["exhaustive"] = True
    return v.finish(rule="every token sequence up to the configured length over a schema whose scalar, list, section and function "
                         "options carry value-parsing / validation / function callbacks, for every choice of the failing invocation "
                         "(none, 1st, 2nd of each kind); the callback log (kind, option, text/argv, visible values) is compared entry by entry; "
                         "by-name setters with a pre-set validation callback that vetoes or rewrites the 1st / 2nd invocation")


def check_C07(tier, seed):
    v = Verdict("C07", tier, seed)
    exe = build_driver("asan")
    sp = ["fs dir $R/d1", "searchpath c1 $R/d1", "searchpath c1 $R"]
    for c in cfgs(tier, ["callbacks_quick.cfg", "C07_titles.cfg"], ["callbacks_thorough.cfg", "C01_quick.cfg"]):
        res = tlc_parse(v, c, INV_CB if "callbacks" in c else (INV_PARSE[2:] if "C07" in c else INV_PARSE))
        parsecheck.replay(v, exe, res, aspects={"freed", "balance"}, seed=seed,
                          renderings=("canonical",), tag="C07")
        if "callbacks" not in c:
            # the same histories with a search path set: sections share the context's path list
            parsecheck.replay(v, exe, res, aspects={"freed", "balance"}, seed=seed, renderings=("canonical",), tag="C07sp",
                              extra_before=sp, sigprefix="parse+searchpath")
    # API histories (setters, bulk set, section add/remove, annotations) with and without a search path
    for c in cfgs(tier, ["api_depth2.cfg"], ["api_quick.cfg"]):
        res = tlc_api(v, c)
        apicheck.replay(v, exe, res, aspects={"freed", "balance"}, seed=seed, tag="C07api")
        apicheck.replay(v, exe, res, aspects={"freed", "balance"}, seed=seed, tag="C07apisp",
                        extra_before=sp[:2], sigprefix="api+searchpath")
    if os.path.exists(os.path.join(SPEC, "MC_Inc.tla")):
        from . import inccheck
        res = run_tlc("MC_Inc.tla", os.path.join("mc", "inc_quick.cfg"))
        v.add_tlc("inc_quick.cfg", res, ["P_C13_Flatten"])
        res.behaviours = [b for b in res.behaviours if any(t["v"] == "include" for t in b["parses"][0]["toks"])]
        inccheck.replay(v, exe, res, aspects={"balance"}, seed=seed, tag="C07inc")
    # file-name resolution: search-path sequences x regular file / directory / nothing under the looked-up name,
    # through cfg_searchpath, cfg_parse and include(): everything acquired on the way is released
    from . import spcheck
    res = run_tlc("MC_SP.tla", os.path.join("mc", "sp_quick.cfg"))
    v.add_tlc("sp_quick.cfg", res, ["P_C17_DirsNeverMatch"])
    spcheck.replay(v, exe, res, seed=seed, tag="C07sp", sigprefix="searchpath", only_balance=True)
    # parses started from inside a callback (into a second context, into the context itself), also inside included files
    run_nest(v, exe, tier, seed, "C07nest")
    v.cov["exhaustive"] = True
    return v.finish(rule="every token sequence up to the configured length (every cut and corruption point of every short text) "
                         "over schemas with pointer-valued options, lists, nested and titled sections (replacement in place) and functions, "
                         "callbacks failing at every position, with and without a search path; API call histories with and without a search "
                         "path; include trees aborted at every level; after each behaviour: live heap blocks, open streams and descriptors "
                         "back to the start value, release callback log = the specification's released/stored pointer sets, ASan clean")


def check_C09(tier, seed):
    v = Verdict("C09", tier, seed)
    exe = build_driver("asan")
    for c in cfgs(tier, ["api_quick.cfg", "api_nopre_quick.cfg", "simple_quick.cfg"], ["api_thorough.cfg"]):
        res = tlc_api(v, c)
        # (annotations are part of what is compared: the comment getter is one of the getters)
        apicheck.replay(v, exe, res, aspects={"tree", "freed", "balance"}, seed=seed, tag="C09",
                        pol={"mod": "nonsec", "reset": False, "cmt": True})
        if c == "api_nopre_quick.cfg":
            # the cfg_opt_* entry points must behave like their by-name forms (no pre-set validation callback there)
            res.behaviours = [b for b in res.behaviours if b["calls"][-1]["call"]["name"] not in ("vi", "vs", "vf")
                              and (tier == "thorough" or len(b["calls"]) <= 2)]
            apicheck.replay(v, exe, res, aspects={"tree"}, seed=seed, tag="C09opt", optvariant=True, sigprefix="api-opt")
    from . import tracegen
    tracegen.run(v, exe, 120 if tier == "quick" else 2500, seed + 17, tag="C09trace", texts_per=1, calls_per=25)
    v.cov["exhaustive"] = True
    return v.finish(rule="state graph of the abstract store under ~60 call instances (setters, list set/append, bulk set, set-from-text, "
                         "annotation, titled add, remove by index/title, section-relative calls, wrong type / index / name) explored to the "
                         "depth bound; every transition (reachable state x call) is replayed after a shortest call path to its pre-state; "
                         "return value and full tree compared after every call")


def check_C10(tier, seed):
    v = Verdict("C10", tier, seed)
    exe = build_driver("asan")
    for c in cfgs(tier, ["api_quick.cfg", "api_nopre_quick.cfg", "api_veto_quick.cfg", "simple_quick.cfg"], ["api_thorough.cfg"]):
        res = tlc_api(v, c)
        # keep only behaviours whose last call is refused: that is the call under test
        res.behaviours = [b for b in res.behaviours if b["calls"][-1]["exp"]["ret"] == "fail"]
        apicheck.replay(v, exe, res, aspects={"noeffect", "cb"}, seed=seed, tag="C10")
    # set-from-text through the parser: a refused value leaves the option as it was
    res = tlc_parse(v, "C10_parse_quick.cfg", INV_PARSE)
    parsecheck.replay(v, exe, res, aspects={"tree_rejected"}, seed=seed, renderings=("canonical",), tag="C10p",
                      pol={"mod": "none", "reset": False, "cmt": True})
    v.cov["exhaustive"] = True
    return v.finish(rule="every reachable option state (pristine default, explicitly set, emptied, annotated, list of n, after parse) x every "
                         "refusing call (bulk set with an unconvertible element at each position, vetoed by-name setter, wrong type, illegal "
                         "index, existing title, missing section, unconvertible set-from-text); the driver's dump of the whole context "
                         "(values, counts, annotation, RESET/MODIFIED bits) must be bit-for-bit identical before and after")


def check_C19(tier, seed):
    v = Verdict("C19", tier, seed)
    exe = build_driver("asan")
    res = run_tlc("MC_Print.tla", os.path.join("mc", "print_quick.cfg"))
    v.add_tlc("print_quick.cfg", res, INV_PRINT)
    printcheck.replay(v, exe, res, seed=seed, tag="C19")
    v.cov["exhaustive"] = True
    return v.finish(rule="a populated three-level tree x a filter from three name predicates (or none) at each of four nesting levels "
                         "x every subset of four options carrying a print callback x seven print entry points (cfg_print, "
                         "cfg_print_indent, section print, cfg_opt_print(_indent) on list / section / multi section / unset scalar); "
                         "the printed text is compared line by line with the specification's line records")


def check_C05(tier, seed):
    v = Verdict("C05", tier, seed)
    exe = build_driver("asan")
    for c in (["rt_quick.cfg", "rt_nopre_quick.cfg", "simple_quick.cfg"] if tier == "quick" else ["rt_thorough.cfg", "rt_nopre_thorough.cfg", "simple_quick.cfg"]):
        res = run_tlc("MC_Api.tla", os.path.join("mc", c))
        v.add_tlc(c, res, ["P_C05_RoundTrip"] + PROPS_API)
        apicheck.replay(v, exe, res, aspects={"roundtrip"}, seed=seed, tag="C05", sigprefix="rt")
    # states reached by parsing (consecutive list assignments, emptied lists, repeated titles): print -> parse -> compare
    for c in cfgs(tier, ["C01_lists.cfg", "C05_parse_quick.cfg", "C01_simple.cfg"], []):
        res = tlc_parse(v, c, INV_PARSE)
        res.behaviours = [b for b in res.behaviours if b["parses"][-1]["exp"]["status"] == "ok"]
        parsecheck.replay(v, exe, res, aspects={"roundtrip"}, seed=seed, renderings=("canonical",), tag="C05p")
    from . import bytesweep
    bytesweep.run(v, exe, tier, seed)
    v.cov["exhaustive"] = True
    return v.finish(rule="every state of the store reachable by the call pool (setters, lists, bulk set, annotations, titled add/remove, "
                         "strings and titles containing quotes, backslashes, '$', '${' without '}', comment markers) from the initial and a "
                         "parsed state, and every state reached by short accepted texts, over schemas of printable option kinds: print -> "
                         "parse into a fresh context -> compare trees -> print -> parse -> print; plus every single byte 1..255 as value and title")


def check_C03(tier, seed):
    v = Verdict("C03", tier, seed)
    exe = build_driver("asan")
    run_lex(v, exe, cfgs(tier, ["lex_dq_quick.cfg", "lex_dqesc_quick.cfg", "lex_octal_quick.cfg", "lex_octal6_quick.cfg", "lex_lines_quick.cfg", "lex_sq_quick.cfg", "lex_comment4_quick.cfg",
                                "lex_dqenv_quick.cfg", "lex_env_quick.cfg", "lex_envafter_quick.cfg", "lex_slash_quick.cfg", "lex_slashbs_quick.cfg"],
                         ["lex_dq_thorough.cfg", "lex_sq_thorough.cfg", "lex_comment_quick.cfg"]), seed, "C03")
    # strings on the growth steps of the scanner's scratch buffer (lengths the bounded model cannot hold literally)
    from . import stress
    stress.run(v, exe, tier, tag="C03steps", only=("buffer-steps",))
    v.cov["exhaustive"] = True
    return v.finish(rule="every byte string up to the length bound over the class representatives of each start condition "
                         "(double-quoted, single-quoted, comment), embedded as 's=\"...' / 's=\\'...' / '/*...'; environment: one variable "
                         "set to a value with a meta character, one empty, one unset; the parsed value of s is compared byte for byte")


def check_C02(tier, seed):
    v = Verdict("C02", tier, seed)
    exe = build_driver("asan")
    run_lex(v, exe, cfgs(tier, ["lex_initial_quick.cfg", "lex_dqesc_quick.cfg", "lex_slash_quick.cfg"], ["lex_words_quick.cfg", "lex_initial_thorough.cfg"]), seed, "C02")
    res = tlc_parse(v, "C02_parse_quick.cfg", INV_PARSE[2:])
    parsecheck.replay(v, exe, res, aspects={"balance"}, seed=seed, renderings=("canonical",), tag="C02")
    # the same kind of input on a context that has a search path (sections share the path list)
    # annotation support and ignore-unknown together (comments in front of discarded items)
    res = tlc_parse(v, "ignore_comments.cfg", INV_IGNORE)
    parsecheck.replay(v, exe, res, aspects={"balance"}, seed=seed, renderings=("canonical",), tag="C02ic")
    res = tlc_parse(v, "C07_titles.cfg", INV_PARSE[2:])
    parsecheck.replay(v, exe, res, aspects={"balance"}, seed=seed, renderings=("canonical",), tag="C02sp",
                      extra_before=["fs dir $R/d1", "searchpath c1 $R/d1"], sigprefix="parse+searchpath")
    stress.run(v, exe, tier, tag="C02")
    # file-name resolution on one context: found, missing, directory, found again (whatever the lookup says, the context stays usable)
    from . import spcheck
    res = run_tlc("MC_SP.tla", os.path.join("mc", "sp_quick.cfg"))
    v.add_tlc("sp_quick.cfg", res, ["P_C17_DirsNeverMatch"])
    spcheck.replay(v, exe, res, seed=seed, tag="C02sp2", sigprefix="searchpath", only_balance=True)
    v.cov["exhaustive"] = True
    return v.finish(rule="(a) every byte string up to the length bound over the class representatives of the INITIAL start condition and "
                         "of the escape machinery, composed scanner+parser verdict compared; (b) every token sequence of the parser model "
                         "(all error points) with heap/descriptor balance; (c) ~560 stress instances (10^5-deep nesting, 10^5..10^6-byte "
                         "tokens in every lexical form, 10^4..10^5 list elements, directories and missing files as parse/include targets, "
                         "self-include, every unterminated construct, every single byte 1..255). All under ASan/UBSan with stdout captured; "
                         "after each input the context is printed, parsed into again and freed")


def check_C04(tier, seed):
    v = Verdict("C04", tier, seed)
    exe = build_driver("asan")
    for c in cfgs(tier, ["num_int_quick.cfg", "num_float_quick.cfg", "num_bool_quick.cfg"], ["num_int_thorough.cfg", "num_float_thorough.cfg"]):
        res = run_tlc("MC_Num.tla", os.path.join("mc", c))
        v.add_tlc(c, res, ["P_C04_IntExact"])
        numcheck.replay(v, exe, res, seed=seed, tag="C04")
    # witness: without the digits-only guard strtol's leniencies leak (the invariant is not vacuous)
    w = run_tlc("MC_Num.tla", os.path.join("mc", "num_int_noguard.cfg"), want_behaviours=False)
    if "P_C04_IntExact" not in w.violated:
        raise ModelError("vacuity witness failed: the unguarded conversion should violate P_C04_IntExact")
    v.notes.append("vacuity witness: P_C04_IntExact is violated by the unguarded strtol model, as expected")
    v.cov["exhaustive"] = True
    return v.finish(rule="every token up to the length bound over the numeral alphabets (int: 0 1 7 8 9 a f x b + - space; float: 0 1 9 . e + - x p "
                         "space; bool: letters of the six words in both cases) plus boundary values around LONG_MIN/LONG_MAX in four radixes and "
                         "DBL_MAX; each through the parser, cfg_setopt and cfg_setmulti with ambient errno in {0, ERANGE, EINVAL}; non-trivial = accepted numerals")


def check_C11(tier, seed):
    v = Verdict("C11", tier, seed)
    exe = build_driver("asan")
    res = run_tlc("MC_Path.tla", os.path.join("mc", "path_tree.cfg"))
    v.add_tlc("path_tree.cfg", res, INV_PATH)
    pathcheck.replay(v, exe, res, seed=seed, tag="C11", mutate=True)
    # the same lookups on a context created with the ignore-unknown flag (lookups that fail stay silent there)
    pathcheck.replay(v, exe, res, seed=seed, tag="C11ign", sigprefix="path-ignore-unknown", ctxflags=256)
    for c in cfgs(tier, ["path_enum_quick.cfg"], ["path_enum_thorough.cfg"]):
        res = run_tlc("MC_Path.tla", os.path.join("mc", c))
        v.add_tlc(c, res, INV_PATH)
        pathcheck.replay(v, exe, res, seed=seed, tag="C11")
    v.cov["exhaustive"] = True
    return v.finish(rule="(a) every path enumerated from a four-level tree (every option x qualifier form: unqualified, =index, =title, ='quoted' "
                         "with escapes) and its systematic breakages (dropped / duplicated separators and quotes, stray '|' or '=' at either end, "
                         "bad index incl. 2^32+k, unknown title, unbalanced quoting), each also through cfg_setstr and cfg_rmsec on a fresh context; "
                         "(b) every byte string up to the length bound over {s m t c | = ' \\\\ 0 1 9 a b}; cfg_getopt / cfg_getsec results are "
                         "located in the tree by pointer identity and compared with the stepwise location the specification computes")


def check_C13(tier, seed):
    v = Verdict("C13", tier, seed)
    exe = build_driver("asan")
    from . import inccheck
    for c in cfgs(tier, ["inc_quick.cfg"], ["inc_thorough.cfg"]):
        res = run_tlc("MC_Inc.tla", os.path.join("mc", c))
        v.add_tlc(c, res, ["P_C13_Flatten", "P_C13_PositionRestored", "P_C13_FailureReported", "P_C13_DepthLimit"])
        inccheck.replay(v, exe, res, aspects={"tree", "diag", "diagpos"}, seed=seed, tag="C13")
    stress.run(v, exe, tier, tag="C13", only=("include-", "parsefile-"))
    run_nest(v, exe, tier, seed, "C13nest")
    v.cov["exhaustive"] = True
    return v.finish(rule="every main text up to the length bound over an alphabet with the include function, ten file names of a fixed "
                         "file system (plain, including another file, re-opening a section, failing, self-including, chains of 10 and 11 "
                         "levels, a directory, a missing name) and ordinary items, with line breaks; tree, return code, first diagnostic's "
                         "file and line, descriptor / include-stack balance compared; plus histories of 12 failing includes followed by "
                         "succeeding ones and includes resolved through the search path")


def check_C17(tier, seed):
    v = Verdict("C17", tier, seed)
    exe = build_driver("asan")
    from . import spcheck
    res = run_tlc("MC_SP.tla", os.path.join("mc", "sp_quick.cfg" if tier == "quick" else "sp_thorough.cfg"))
    v.add_tlc("sp.cfg", res, ["P_C17_FirstAdded", "P_C17_AbsoluteBypass", "P_C17_DirsNeverMatch", "P_C17_Tilde"])
    spcheck.replay(v, exe, res, seed=seed, tag="C17")
    plain = build_driver("plain")
    spcheck.tilde(v, res, [("asan", exe, False), ("valgrind", plain, True)], tag="C17")
    v.assumptions.append("accounts root (/root) and nobody (/nonexistent) exist, 'nouser' does not; the checks run as root")
    v.cov["exhaustive"] = True
    return v.finish(rule="every search-path sequence up to the bound over {existing d1, existing d2, missing, ~nouser/..., ~root/...} x "
                         "{regular file, directory, nothing} named a.conf in d1 and in d2 x eight names (relative, absolute, sub-directory "
                         "relative, missing, directory); cfg_searchpath result, and which file's marker cfg_parse and include() end up "
                         "reading; twelve tilde forms through cfg_tilde_expand and cfg_add_searchpath under ASan and under valgrind")


def check_C08(tier, seed):
    v = Verdict("C08", tier, seed)
    exe = build_driver("asan")
    from . import scancheck
    c = "scan_thorough.cfg" if tier == "thorough" else "scan_quick.cfg"
    res = run_tlc("MC_Scan.tla", os.path.join("mc", c))
    v.add_tlc(c, res, ["P_C08_Clean", "P_C08_HistoryFree", "P_C08_NoCrossTalk"])
    for e in res.errors:
        if "is violated" in e:
            v.violation("spec:%s" % e[:60], "TLC: %s" % e, {})
    scancheck.replay(v, exe, res, seed=seed, tag="C08")
    # the same histories with every text handed over as a stream (cfg_parse_fp)
    scancheck.replay(v, exe, res, seed=seed, tag="C08fp", sigprefix="scan-fp", via="parsefp")
    run_nest(v, exe, tier, seed, "C08nest")
    w = run_tlc("MC_Scan.tla", os.path.join("mc", "scan_unrepaired.cfg"), want_behaviours=False)
    if "P_C08_Clean" not in w.violated:
        raise ModelError("vacuity witness failed: the unrepaired scanner model should violate P_C08_Clean")
    v.notes.append("vacuity witness: the model of the pinned (unrepaired) scanner violates P_C08_Clean, as expected")
    # token level: a rejected parse (bad value / range check, bad token, failing callback) followed by another parse
    # (two_dep: deprecated options - the second text gets its own notices, whatever the first one did)
    for c in ("C01_two_parses.cfg", "two_dep.cfg"):
        res = tlc_parse(v, c, INV_PARSE)
        res.behaviours = [b for b in res.behaviours if len(b["parses"]) == 2]
        parsecheck.replay(v, exe, res, aspects={"tree", "diag", "balance"}, seed=seed, renderings=("canonical",), tag="C08p")
    v.cov["exhaustive"] = True
    return v.finish(rule="every history up to the bound over {accepted parse, parse aborted inside a double-quoted string / a single-quoted "
                         "string / a comment / on a bad escape / inside an included file / by the include depth limit, accepted include, free + "
                         "re-create} x two contexts, followed by four probe parses into a fresh context; return code, tree and diagnostics of "
                         "every step compared with the scanner+parser composition of the specification (= the result in a fresh process), the "
                         "other contexts must not change; plus every pair of short texts parsed one after the other into one context")


def check_C16(tier, seed):
    v = Verdict("C16", tier, seed)
    exe = build_driver("asan")
    from . import owncheck
    # thorough: the full alphabet at depth 3 (as in the quick tier) and the core alphabet at depth 4
    for c in (["own_quick.cfg", "own_thorough.cfg"] if tier == "thorough" else ["own_quick.cfg"]):
        res = run_tlc("MC_Own.tla", os.path.join("mc", c))
        v.add_tlc(c, res, ["P_C16_Solo", "P_C16_NoCrossTalk", "P_C16_Siblings"])
        for e in res.errors:
            if "is violated" in e:
                v.violation("spec:%s" % e[:60], "TLC: %s" % e, {})
        owncheck.replay(v, exe, res, seed=seed, tag="C16")
    v.cov["exhaustive"] = True
    return v.finish(rule="every interleaving up to the bound of operations on two contexts created from the same declarations (parse creating "
                         "nested multi-section instances, free-form keys, assignments and appends; setters; annotation; titled add/remove; "
                         "callback registration on an option and on a section template; writes into one of two sibling instances), with the "
                         "caller's declaration arrays and strings overwritten with 0xA5 and freed right after the second cfg_init (ASan reports "
                         "any later read); both trees compared with the specification after every step")


def check_C18(tier, seed):
    v = Verdict("C18", tier, seed)
    exe = build_driver("asan")
    from . import oomcheck
    from .render import schema_lines as sl
    W = []
    schemas = {}
    for c in ["api_depth1.cfg", "api_depth1_nopre.cfg", "simple_depth1.cfg"]:     # (simple: values in the caller's variables)
        res = tlc_api(v, c)
        W += oomcheck.api_workloads(res, c.split(".")[0])
        schemas["api" if "simple" not in c else "simple"] = sl("S", res.schemas[1])
    lim = 12 if tier == "quick" else 60
    for c, invs in (("C07_titles.cfg", INV_PARSE[2:]), ("C05_parse_quick.cfg", INV_PARSE), ("callbacks_quick.cfg", INV_CB),
                    ("C01_kvnest.cfg", INV_PARSE)):      # (free-form sections: options created while parsing)
        res = tlc_parse(v, c, invs)
        W += oomcheck.parse_workloads(res, c.split(".")[0], lim)
        for sid, sch in res.schemas.items():
            schemas["%s-%d" % (c.split(".")[0], sid)] = sl("S", sch)
    res = run_tlc("MC_Inc.tla", os.path.join("mc", "inc_quick.cfg"))
    v.add_tlc("inc_quick.cfg", res, ["P_C13_Flatten"])
    W += oomcheck.parse_workloads(res, "inc", lim)
    W += oomcheck.misc_workloads(schemas)
    counts = oomcheck.sweep(v, exe, W, tag="C18")
    # entry point coverage report
    used = set()
    for w in W:
        for cmdline in w.setup + [w.target]:
            used.update(oomcheck.API_OF.get(cmdline.split(" ")[0], []))
        if "include" in w.target or "include" in " ".join(w.setup):
            used.add("cfg_include")
    eps = oomcheck.entry_points()
    v.cov["entry_points_total"] = len(eps)
    v.cov["entry_points_in_workloads"] = len(eps & used)
    v.cov["entry_points_not_in_workloads"] = sorted(eps - used)
    v.cov["workloads"] = len(W)
    v.cov["exhaustive"] = True
    return v.finish(level="fault_enumeration",
                    rule="workloads = behaviours of the specification (every successful API transition of MC_Api from the initial and a "
                         "parsed state; the longest accepted and rejected texts of the parser, callback and include models; cfg_init for "
                         "every schema; search path, tilde, file parse, include, annotation, by-path lookups, print); for each workload and "
                         "every k up to the number of allocation requests confuse.c issues during the target call, the k-th request fails "
                         "(exhaustive over k); non-trivial = runs in which the injected failure was actually reached; oracle: the process "
                         "survives (ASan/UBSan clean), the call returns success with the specification's complete post-state or a failure "
                         "code, the context prints and frees, live blocks / descriptors / include stack return to their start values")


CHECKS = {"C18": check_C18, "C16": check_C16, "C08": check_C08, "C17": check_C17, "C13": check_C13, "C01": check_C01, "C02": check_C02, "C03": check_C03, "C04": check_C04, "C05": check_C05, "C06": check_C06,
          "C07": check_C07, "C09": check_C09, "C10": check_C10, "C11": check_C11, "C12": check_C12, "C14": check_C14,
          "C15": check_C15, "C19": check_C19}


def main(argv):
    if len(argv) >= 2 and argv[0] == "--replay":
        from . import replaytool
        return replaytool.main(argv[1])
    if len(argv) < 1:
        print(__doc__)
        return 2
    prop = argv[0]
    tier = argv[1] if len(argv) > 1 else os.environ.get("VERIF_TIER", "quick")
    if prop not in CHECKS:
        print("unknown property %s" % prop)
        return 2
    try:
        return CHECKS[prop](tier, seed_of())
    except ModelError as e:
        print("CHECK-BROKEN property=%s: %s" % (prop, e))
        return 2
    except Exception:
        traceback.print_exc()
        print("CHECK-BROKEN property=%s: internal error" % prop)
        return 2
