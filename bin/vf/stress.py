"""Parametric stress instances for C02 (and C12's stack bound): behaviours of the
specification that the bounded models cannot hold literally (huge tokens, 10^5-deep
nesting, special files, every single byte).  The verdict of each instance follows from
the specification (Lexer.tla / Parser.tla semantics); what is checked on the real code is
the return code, that the process survives, that nothing reaches stdout, and that the
context is still usable (print, re-parse, free) afterwards."""
from .core import enc, run_behaviours, ModelError, FLAGBITS

SCHEMA = ["schema S", "o str s 0 0 d", "o str l 2 0 ~", "o int i 0 0 7",
          "o sec c 0 0", "o str s 0 0 d", "e", "o func include 0 0 include", "o func f 0 0 user", "endschema"]


def instances(tier):
    big = 1000000 if tier == "thorough" else 200000
    deep = 100000
    n_list = 100000 if tier == "thorough" else 20000
    I = []

    def add(name, flags, text, want, extra=None, expect=None):
        I.append(dict(name=name, flags=flags, text=text, want=want, extra=extra or [], expect=expect))
    ign = FLAGBITS["IGNORE_UNKNOWN"]
    add("deep-unknown-sections", ign, "u { " * deep + "} " * deep + "\ns = ok", 0)
    add("deep-unknown-sections-open", ign, "u { " * deep, 1)
    add("deep-unknown-titled", ign, "u t { " * (deep // 2) + "} " * (deep // 2), 0)
    add("deep-unknown-without-flag", 0, "u { " * deep + "} " * deep, 1)
    add("deep-braces-in-list", 0, "l = " + "{" * deep, 1)
    add("deep-parens", 0, "f" + "(" * deep, 1)
    add("huge-bare-token", 0, "s = " + "a" * big, 0)
    add("huge-dq-token", 0, 's = "' + "a" * big + '"', 0)
    add("huge-sq-token", 0, "s = '" + "a" * big + "'", 0)
    add("huge-dq-escapes", 0, 's = "' + "\\n\\x41\\101" * (big // 10) + '"', 0)
    add("huge-block-comment", FLAGBITS["COMMENTS"], "/* " + "c * / " * (big // 6) + "*/ s = x", 0)
    add("huge-line-comment", FLAGBITS["COMMENTS"], "# " + "c" * big + "\ns = x", 0)
    add("huge-slash-comment", 0, "/" * big + "\ns = x", 0)
    add("huge-hash-run", FLAGBITS["COMMENTS"], "#" * big, 0)
    add("huge-unknown-name", 0, "z" * big + " = 1", 1)
    add("huge-env-name", 0, "s = ${" + "N" * big + ":-dflt}", 0)
    add("huge-env-unterminated", 0, "s = ${" + "N" * big, None)
    add("many-list-elements", 0, "l = {" + ",".join(["e"] * n_list) + "}", 0)
    add("many-list-appends", 0, "\n".join(["l += v"] * (n_list // 10)), 0)
    add("many-newlines", 0, "\n" * big + "s = x", 0)
    add("many-sections", 0, "c { s = x }\n" * (n_list // 10), 0)
    add("many-function-args", 0, "f(" + ",".join(["a"] * n_list) + ")", 0)
    add("unterminated-dq", 0, 's = "abc', 1)
    add("unterminated-dq-backslash", 0, 's = "abc\\', 1)
    add("unterminated-sq", 0, "s = 'abc", 1)
    add("unterminated-sq-backslash", 0, "s = 'abc\\", 1)
    add("unterminated-comment", 0, "s = x /* abc", None)
    add("unterminated-comment-star", 0, "s = x /* abc *", None)
    add("unterminated-list", 0, "l = {a, b", 1)
    add("unterminated-section", 0, "c { s = x", 1)
    add("unterminated-call", 0, "f(a, b", 1)
    add("unterminated-env", 0, "s = ${HOME", None)
    add("cr-and-controls", 0, "s\r=\r\x01x\x02\r\n", None)
    add("lone-plus-star", 0, "s + = * x", None)
    add("nul-escape", 0, 's = "a\\0b"', None)
    add("octal-too-big", 0, 's = "\\777"', 1)
    add("bad-escape-digits", 0, 's = "\\18"', 1)
    add("include-directory", 0, 'include("$R")', 1)
    add("include-missing", 0, 'include("$R/nope.conf")', 1)
    add("include-self", 0, 'include("$R/self.conf")', 1, extra=["fs file $R/self.conf %s" % enc('include("$R/self.conf")\n')])
    add("include-no-args", 0, "include()", 1)
    add("include-two-args", 0, "include(a, b)", 1)
    add("include-unterminated-inside", 0, 'include("$R/open.conf")\ns = after', 1,
        extra=["fs file $R/open.conf %s" % enc('s = "never closed')])
    # an included file that ends inside a comment / a string while the including text goes on
    for cf in (0, FLAGBITS["COMMENTS"]):
        add("include-open-comment-inside-%d" % cf, cf, 'include("$R/openc.conf")\n tail */\ns = after', None,
            extra=["fs file $R/openc.conf %s" % enc('i = 1 /* never closed ' + "c" * 40)])
        add("include-open-comment-long-%d" % cf, cf, 'include("$R/openl.conf")\n' + "t" * 100 + ' */\ns = after', None,
            extra=["fs file $R/openl.conf %s" % enc('i = 1 /* ' + "c" * 5000)])
    # comments without a body where a name is expected, with annotation support: first thing in the text, after an
    # include returned, after a section with a parsed list default was created
    cm = FLAGBITS["COMMENTS"]
    for k, body in enumerate(("/**/", "/* */", "/***/", "#", "//", "#\n#")):
        add("empty-comment-first-%d" % k, cm, body + "\ns = x", 0, expect={"s": ["x"]})
        add("empty-comment-after-include-%d" % k, cm, 'include("$R/one.conf")\n' + body + "\ns = y", 0,
            extra=["fs file $R/one.conf %s" % enc("i = 1")], expect={"s": ["y"]})
        add("empty-comment-last-%d" % k, cm, "s = z " + body, 0, expect={"s": ["z"]})
    add("include-open-sq-inside", 0, 'include("$R/opens.conf")\ns = after', 1,
        extra=["fs file $R/opens.conf %s" % enc("s = 'never closed")])
    # strings whose length sits on the growth steps of the scanner's scratch buffer, each the longest so far
    lens = [n + d for n in (32, 64, 96, 128, 160, 256, 512, 1024) for d in (-1, 0, 1)]
    for q in ('"', "'"):
        vals = [chr(97 + k % 26) * n for k, n in enumerate(lens)]
        add("buffer-steps-%s" % ("dq" if q == '"' else "sq"), 0, "s = %sx%s\nl = {%s}" % (q, q, ", ".join(q + v + q for v in vals)), 0,
            expect={"s": ["x"], "l": vals})
    vals = [chr(97 + k % 26) * n for k, n in enumerate(lens)]
    add("buffer-steps-bare", 0, "s = x\nl = {%s}" % ", ".join(vals), 0, expect={"s": ["x"], "l": vals})
    add("buffer-steps-comments", FLAGBITS["COMMENTS"], "".join("/* %s */\ns = v%d\n" % ("k" * n, n) for n in lens), 0,
        expect={"s": ["v%d" % lens[-1]]})
    for c in range(1, 256):
        add("single-byte-%d" % c, 0, chr(c), None)
        add("value-byte-%d" % c, 0, "s = a" + chr(c), None)
    return I


def parse_file_instances():
    return [dict(name="parsefile-directory", path="$R", want=-1),
            dict(name="parsefile-missing", path="$R/none.conf", want=-1),
            dict(name="parsefile-empty-name", path="", want=-1),
            # a directory reached only after tilde expansion (the home directory of the effective user / of root)
            dict(name="parsefile-tilde-home", path="~", want=-1),
            dict(name="parsefile-tilde-home-slash", path="~/", want=-1),
            dict(name="parsefile-tilde-root", path="~root", want=-1)]


def run(verdict, exe, tier, tag="stress", sigprefix="stress", only=None):
    scripts, meta = [], {}
    insts = instances(tier)
    if only:
        insts = [i for i in insts if i["name"].startswith(tuple(only))]
    for k, inst in enumerate(insts):
        lines = list(SCHEMA) + inst["extra"] + ["init c1 S %d" % inst["flags"], "dump %d" % (1 if inst.get("expect") else 0),
                 "parsebuf c1 %s" % enc(inst["text"]), "dump 1", "print c1",
                 "parsebuf c1 %s" % enc("s = again"), "free c1"]
        bid = "s%d" % k
        scripts.append((bid, "\n".join(lines)))
        meta[bid] = inst
    for k, inst in enumerate([] if only else parse_file_instances()):
        lines = list(SCHEMA) + ["init c1 S 0", "dump 0", "parsefile c1 %s" % enc(inst["path"]), "dump 1", "print c1",
                                "parsebuf c1 %s" % enc("s = again"), "free c1"]
        bid = "f%d" % k
        scripts.append((bid, "\n".join(lines)))
        meta[bid] = inst
    results = run_behaviours(exe, scripts, tag, chunk=40, per_timeout=60)
    for bid, inst in meta.items():
        g = results.get(bid)
        desc = inst["name"]
        verdict.cov["traces_validated_against_impl"] += 1
        if g is None:
            raise ModelError("no output for stress instance %s" % desc)
        if g["crash"]:
            verdict.violation("%s:%s:%s" % (sigprefix, g["crash"]["kind"], desc),
                              "stress instance %s: %s :: %s" % (desc, g["crash"]["kind"], g["crash"]["detail"][:1200]), {"instance": desc})
            continue
        first = [l for l in g["lines"] if l["cmd"] in ("parsebuf", "parsefile")][0]
        again = [l for l in g["lines"] if l["cmd"] == "parsebuf"][-1]
        probs = []
        if inst["want"] is not None and first["ret"] != inst["want"]:
            probs.append("return code %d, expected %d" % (first["ret"], inst["want"]))
        if first["ret"] not in (0, 1, -1):
            probs.append("return code %d is neither success nor a parse/file error" % first["ret"])
        for nm, want_v in (inst.get("expect") or {}).items():
            got = [o for o in first["ctx"]["c1"]["o"] if o["n"] == nm][0]["v"]
            if got != want_v:
                probs.append("%s holds %r, the text says %r" % (nm, [x[:40] for x in got][:6], [x[:40] for x in want_v][:6]))
        if first["ret"] == 1 and not first["diag"]:
            probs.append("parse error without a diagnostic")
        if again["out"] != g["begin"]["out"]:
            probs.append("%d byte(s) on standard output" % (again["out"] - g["begin"]["out"]))
        if again["ret"] != 0:
            probs.append("context unusable afterwards: parsing 's = again' returned %d" % again["ret"])
        else:
            sval = [o for o in again["ctx"]["c1"]["o"] if o["n"] == "s"][0]["v"]
            if sval != ["again"]:
                probs.append("context unusable afterwards: 's = again' left s = %r" % sval)
        if g["end"] and (g["end"]["live"] != g["begin"]["live"] or g["end"]["fds"] != g["begin"]["fds"] or g["end"].get("incsp", 0)):
            probs.append("heap blocks / descriptors / include stack not restored")
        if probs:
            verdict.violation("%s:%s" % (sigprefix, desc), "stress instance %s: %s" % (desc, "; ".join(probs)), {"instance": desc})
    verdict.cov["evaluations"] += len(meta)
    verdict.cov["distinct_nontrivial"] += len(meta)
    verdict.sample({"stress_instances": [m["name"] for m in list(meta.values())[:45]]})
