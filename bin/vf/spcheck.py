"""Leg A for MC_SP (C17): search path, regular-file test, tilde expansion on a real directory tree."""
import os, pwd
from .core import enc, run_behaviours, ModelError, build_driver

SCHEMA = ["schema S", "o str s 0 0 dflt", "o func include 0 0 include", "endschema"]
NOTFOUND = "<NOTFOUND>"
RAW = {"/root/.vf-nonexistent": "~root/.vf-nonexistent"}


def check_env(res):
    pw = res.extra["PW"][0]
    for u, h in pw.items():
        try:
            if pwd.getpwnam(u).pw_dir != h:
                raise ModelError("environment: home of %s is %s, the model assumes %s" % (u, pwd.getpwnam(u).pw_dir, h))
        except KeyError:
            raise ModelError("environment: account %s does not exist" % u)
    try:
        pwd.getpwnam("nouser")
        raise ModelError("environment: account 'nouser' exists")
    except KeyError:
        pass
    if pwd.getpwuid(os.geteuid()).pw_dir != "/root":
        raise ModelError("environment: effective user's home is not /root")


def fs_setup(place):
    lines = ["fs dir $R/d1", "fs dir $R/d2", "fs dir $R/d2/sub",
             "fs file $R/d2/sub/a.conf %s" % enc('s = "$R/d2/sub/a.conf"'.replace("$R", "@R")),
             "fs file $R/top.conf %s" % enc('s = "@R/top.conf"')]
    for d in ("d1", "d2"):
        k = place[d]
        if k == "file":
            lines.append("fs file $R/%s/a.conf %s" % (d, enc('s = "@R/%s/a.conf"' % d)))
        elif k == "dir":
            lines.append("fs dir $R/%s/a.conf" % d)
    return lines


def replay(verdict, exe, res, seed=0, tag="sp", sigprefix="sp", only_balance=False):
    check_env(res)
    scripts, meta = [], {}
    for n, b in enumerate(res.behaviours):
        lines = list(SCHEMA) + fs_setup(b["place"]) + ["chdir $R", "init c1 S 0", "dump 0"]
        for d in b["sp"]:
            lines.append("searchpath c1 %s" % enc(RAW.get(d, d)))
        names = sorted(b["resolve"].keys())
        lines.append("dump 1")
        for nm in names:
            lines.append("resolve c1 %s" % enc(nm))
        for nm in names:
            lines.append("parsefile c1 %s" % enc(nm))
            lines.append("parsebuf c1 %s" % enc('s = reset'))
            lines.append("parsebuf c1 %s" % enc('include("%s")' % nm))
            lines.append("parsebuf c1 %s" % enc('s = reset'))
        lines.append("free c1")
        bid = "q%d" % n
        scripts.append((bid, "\n".join(lines)))
        meta[bid] = (b, names)
    results = run_behaviours(exe, scripts, tag, chunk=50)
    nontriv = 0
    for bid, (b, names) in meta.items():
        g = results.get(bid)
        desc = "search path %s, a.conf in d1=%s d2=%s" % ([RAW.get(d, d) for d in b["sp"]], b["place"]["d1"], b["place"]["d2"])
        if g is None:
            raise ModelError("no output")
        if g["crash"]:
            verdict.violation("%s:%s:%s" % (sigprefix, g["crash"]["kind"], desc), "%s :: %s" % (desc, g["crash"]["detail"][:1000]), {"behaviour": b})
            continue
        rs = [l for l in g["lines"] if l["cmd"] == "resolve"]
        pf = [l for l in g["lines"] if l["cmd"] == "parsefile"]
        pb = [l for l in g["lines"] if l["cmd"] == "parsebuf"]
        inc = pb[1::3]
        probs = []
        for k, nm in enumerate(names):
            verdict.cov["traces_validated_against_impl"] += 1
            want = b["resolve"][nm]
            got = rs[k]["ret"]
            wantv = None if want in (NOTFOUND, "<EMPTY>") else want
            if got != wantv:
                probs.append("cfg_searchpath(%r) = %r, expected %r" % (nm, got, wantv))
            if wantv:
                nontriv += 1
            opn = b["open"][nm]
            sval = lambda l: [o for o in l["ctx"]["c1"]["o"] if o["n"] == "s"][0]["v"][0]
            marker = None if opn == NOTFOUND else opn.replace("$R", "@R")
            for what, l in (("cfg_parse", pf[k]), ("include", inc[k])):
                if marker is None:
                    bad = (l["ret"] == 0)
                    if bad:
                        probs.append("%s(%r) succeeded (s=%r), expected a file error" % (what, nm, sval(l)))
                else:
                    if l["ret"] != 0 or sval(l) != marker:
                        probs.append("%s(%r): ret %d, parsed file marker %r, expected %r" % (what, nm, l["ret"], sval(l), marker))
        if probs and not only_balance:
            verdict.violation("%s:%s" % (sigprefix, desc), "%s :: %s" % (desc, "; ".join(probs[:4])), {"behaviour": b})
        if g["end"] and (g["end"]["live"] != g["begin"]["live"] or g["end"]["fds"] != g["begin"]["fds"]):
            verdict.violation("%s:balance:%s" % (sigprefix, desc), "%s :: heap blocks / descriptors not restored" % desc, {"behaviour": b})
    verdict.cov["evaluations"] += len(meta) * 8
    verdict.cov["distinct_nontrivial"] += nontriv
    verdict.sample({"search_path": res.behaviours[-1]["sp"], "placement": res.behaviours[-1]["place"], "resolve": res.behaviours[-1]["resolve"]})


def tilde(verdict, res, variant_exes, tag="tilde"):
    """cfg_tilde_expand on every form; under ASan and (plain build) under valgrind for uninitialised reads"""
    exp = res.extra["TILDE"][0]
    names = sorted(exp.keys())
    # (HOME points elsewhere: the home directory comes from the account database, not from the environment)
    lines = ["schema S", "o str s 0 0 d", "endschema", "env set HOME %s" % enc("/nonexistent-home-from-env"), "init c1 S 0", "dump 0"]
    for nm in names:
        lines.append("tilde %s" % enc(nm))
    for nm in names:
        if nm:
            lines.append("searchpath c1 %s" % enc(nm))
    lines.append("free c1")
    for label, exe, vg in variant_exes:
        results = run_behaviours(exe, [("t0", "\n".join(lines))], tag + label, per_timeout=120, valgrind=vg)
        g = results["t0"]
        verdict.cov["traces_validated_against_impl"] += len(names)
        if g["crash"]:
            verdict.violation("tilde:%s:%s" % (label, g["crash"]["kind"]), "cfg_tilde_expand under %s: %s" % (label, g["crash"]["detail"][:1500]), {})
            continue
        if g.get("valgrind"):
            verdict.violation("tilde:%s:uninit" % label, "valgrind reports an error during tilde expansion: %s" % g["valgrind"][:1500], {})
        tl = [l for l in g["lines"] if l["cmd"] == "tilde"]
        for nm, l in zip(names, tl):
            if l["ret"] != exp[nm]:
                verdict.violation("tilde:%s:%r" % (label, nm), "cfg_tilde_expand(%r) = %r, expected %r" % (nm, l["ret"], exp[nm]), {})
    verdict.cov["evaluations"] += len(names)
