"""Leg A for the byte-level scanner model (MC_Lex): replay byte strings."""
import random
from .core import enc, run_behaviours, ModelError
from .render import schema_lines, cmp_sec, NULL

PLAIN = [c for c in range(33, 256) if chr(c) not in " #\"'\t\n\r={}()+,*/$\\:-" and not chr(c).isdigit()
         and chr(c) not in "abcdefABCDEFnrtvxsclfqVUER" and c != 127]     # (no 'R': "$R" is the driver's scratch-root marker)


def b2s(x):
    if isinstance(x, list):
        return "".join(chr(c) for c in x)
    return x


def conv_schema(decls):
    out = []
    for d in decls:
        e = dict(d)
        e["name"] = b2s(d["name"])
        e["def"] = [b2s(v) for v in d["def"]]
        e["sub"] = conv_schema(d["sub"])
        out.append(e)
    return out


def conv_obs(sec, sub=None):
    def cv(x):
        s = b2s(x)
        if sub and isinstance(x, list):
            s = "".join(sub.get(ch, ch) for ch in s)
        return s
    o2 = []
    for o in sec["o"]:
        e = dict(o)
        e["n"] = b2s(o["n"])
        if o["ty"] == "sec":
            e["v"] = [conv_obs(x, sub) for x in o["v"]]
        else:
            e["v"] = [cv(v) for v in o["v"]]
        o2.append(e)
    return {"t": sec["t"] if not isinstance(sec["t"], list) else b2s(sec["t"]), "o": o2}


def replay(verdict, exe, res, seed=0, tag="lex", sigprefix="lex", vary=True):
    schema = conv_schema(res.schemas[1])
    rng = random.Random(seed)
    scripts, meta = [], {}
    n = 0
    for b in res.behaviours:
        variants = [None]
        if vary and 113 in b["text"]:
            variants.append({"q": chr(rng.choice(PLAIN))})
        for sub in variants:
            text = b2s(b["text"])
            if sub:
                text = "".join(sub.get(ch, ch) for ch in text)
            lines = schema_lines("S", schema)
            lines += ["env set V %s" % enc("w{"), "env set E %00", "env unset U", "init c1 S 0",
                      "parsebuf c1 %s" % enc(text), "print c1", "parsebuf c1 %s" % enc("s = again"),
                      "init c2 S 0", "parsebuf c2 %s" % enc(text + "\n="), "free c2", "free c1"]
            bid = "x%d" % n
            n += 1
            scripts.append((bid, "\n".join(lines)))
            meta[bid] = (b, sub, text)
    results = run_behaviours(exe, scripts, tag)
    script_of = dict(scripts)
    distinct = set()
    for bid, (b, sub, text) in meta.items():
        g = results.get(bid)
        desc = repr(text)
        verdict.cov["traces_validated_against_impl"] += 1
        if b["ntoks"] > 1:
            distinct.add(desc)
        rep = {"text_bytes": [ord(c) for c in text], "expected": b, "script": script_of.get(bid)}
        if g is None:
            raise ModelError("no output for %s" % bid)
        if g["crash"]:
            verdict.violation("%s:%s:%s" % (sigprefix, g["crash"]["kind"], desc), "%s on input %s :: %s" % (g["crash"]["kind"], desc, g["crash"]["detail"][:1500]), rep)
            continue
        pl = [l for l in g["lines"] if l["cmd"] == "parsebuf"]
        line = pl[0]
        probs = []
        if line["out"] != g["begin"]["out"] or pl[1]["out"] != g["begin"]["out"]:
            probs.append(("stdout", "%d byte(s) written to standard output" % (max(line["out"], pl[1]["out"]) - g["begin"]["out"])))
        st = b["status"]
        if st != "unspec":
            want = 0 if st == "ok" else 1
            if line["ret"] != want:
                probs.append(("ret", "return code expected %d (%s) observed %d" % (want, st, line["ret"])))
            if st == "fail" and not line["diag"]:
                probs.append(("diag", "rejected without a diagnostic"))
            if st == "ok":
                d = []
                cmp_sec(conv_obs(b["obs"], sub), line["ctx"].get("c1"), "", d, {"mod": "none", "cmt": False})
                probs += [("value", x) for x in d]
        # the line counter: an error token placed on a fresh line after the text is reported there (C06)
        if st == "ok" and len(pl) > 2:
            l3 = pl[2]
            if l3["ret"] != 1 or not l3["diag"]:
                probs.append(("line", "text + newline + '=' was not rejected with a diagnostic"))
            elif l3["diag"][0]["line"] != b["line"] + 1:
                probs.append(("line", "a token on the line after the text is reported on line %d, expected %d" % (l3["diag"][0]["line"], b["line"] + 1)))
        if st == "fail" and line["diag"]:
            want_line = b["diagline"]
            if want_line and line["diag"][0]["line"] != want_line:
                probs.append(("line", "first diagnostic on line %d, expected %d" % (line["diag"][0]["line"], want_line)))
        # afterwards the context is still usable: a following parse behaves normally (C02/C08)
        if pl[1]["ret"] != 0:
            probs.append(("usable", "a following parse of 's = again' into the same context failed"))
        else:
            sval = [o for o in pl[1]["ctx"]["c1"]["o"] if o["n"] == "s"][0]["v"]
            if sval != ["again"]:
                probs.append(("usable", "a following parse of 's = again' left s = %r" % sval))
        if probs:
            verdict.violation("%s:%s:%s" % (sigprefix, "+".join(sorted(set(k for k, _ in probs))), desc),
                              "input %s :: %s" % (desc, "; ".join(p for _, p in probs[:4])), dict(rep, observed=line))
        if g["end"] and (g["end"]["live"] != g["begin"]["live"] or g["end"]["fds"] != g["begin"]["fds"]):
            verdict.violation("%s:balance:%s" % (sigprefix, desc), "input %s :: heap blocks / descriptors not restored" % desc, rep)
    verdict.cov["evaluations"] += len(meta)
    verdict.cov["distinct_nontrivial"] += len(distinct)
    for bid in list(meta)[:3]:
        verdict.sample({"input": meta[bid][2], "expected_status": meta[bid][0]["status"]})
