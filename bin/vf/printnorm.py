"""Layout-insensitive comparison of printed configurations.  C19/C05 fix which options are
written, in which order, at which nesting depth, commented out or not, and with which values -
not the amount of white space around '=' / ',' or the width of one indentation level.  Printed
text is therefore compared as (depth, tokens) per line."""
import re
from math import gcd
from functools import reduce

TOK = re.compile(r'\s*(/\*.*?\*/|"(?:\\.|[^"\\])*"|<[^>]*>|[{}=,#]|[^\s{}=,"#]+)', re.S)


def tokens(line):
    out, i = [], 0
    s = line.strip()
    while i < len(s):
        m = TOK.match(s, i)
        if not m:
            out.append(s[i:])
            break
        out.append(m.group(1))
        i = m.end()
    return out


def canon(lines):
    widths = [len(l) - len(l.lstrip(" ")) for l in lines if l.strip()]
    unit = reduce(gcd, [w for w in widths if w > 0], 0) or 1
    return [((len(l) - len(l.lstrip(" "))) // unit, tuple(tokens(l))) for l in lines]


def same(exp_lines, obs_lines):
    return canon(exp_lines) == canon(obs_lines)


def first_diff(exp_lines, obs_lines):
    a, b = canon(exp_lines), canon(obs_lines)
    k = 0
    while k < min(len(a), len(b)) and a[k] == b[k]:
        k += 1
    return k


def respec(lines):
    """observed lines re-rendered in the layout of the printer model (Printer.tla), token for token"""
    out = []
    for depth, toks in canon(lines):
        t = list(toks)
        pre = ""
        if t and t[0] == "#":
            pre, t = "# ", t[1:]
        if len(t) >= 3 and t[1] == "=" and t[2] == "{":
            elems, cur = [], []
            for x in t[3:-1]:
                if x == ",":
                    elems.append(cur)
                    cur = []
                else:
                    cur.append(x)
            elems.append(cur)
            body = ", ".join(" ".join(e) for e in elems)      # (an element may print as nothing: user pointers)
            txt = "%s = {%s}" % (t[0], body)
        elif len(t) >= 2 and t[1] == "=":
            txt = "%s=%s" % (t[0], "".join(t[2:]))
        else:
            txt = " ".join(t)
        out.append("  " * depth + pre + txt)
    return out
