/* Conformance driver: executes scripted behaviours through libConfuse's public
 * API (public header only) and writes one ndjson observation per command.
 * Usage: driver <script> <out.ndjson> <scratchdir>
 * See DESIGN.md (driver protocol).                                          */
#define _GNU_SOURCE
#include <stdio.h>
#include <stdlib.h>
#include <string.h>
#include <stdarg.h>
#include <errno.h>
#include <unistd.h>
#include <signal.h>
#include <dirent.h>
#include <fcntl.h>
#include <sys/stat.h>
#include <sys/types.h>
#include <limits.h>
#include "confuse.h"

extern long vf_live_blocks, vf_open_streams, vf_alloc_requests, vf_fail_at, vf_failed;
extern const char *vf_failed_fn;
extern void vf_free(void *p);
extern int cfg_include_stack_ptr;	/* exported by lexer.l; cross-check only */

static FILE *out;
static int normal_exit = 0;
static char cur_id[256] = "";
static long cmd_index = 0;
static int stdout_fd_file = -1;

/* ---------- small utilities ---------- */
static void die(const char *fmt, ...)
{
	va_list ap;
	va_start(ap, fmt);
	fprintf(stderr, "DRIVER-ERROR: ");
	vfprintf(stderr, fmt, ap);
	fprintf(stderr, "\n");
	va_end(ap);
	normal_exit = 1;
	exit(70);
}

static char *pct_decode(const char *s)
{
	size_t n = strlen(s), i, j = 0;
	char *r;
	if (strcmp(s, "~") == 0)
		return NULL;
	r = malloc(n + 1);
	for (i = 0; i < n; i++) {
		if (s[i] == '%' && i + 2 < n + 0 + 1 && s[i + 1] && s[i + 2]) {
			char h[3] = { s[i + 1], s[i + 2], 0 };
			r[j++] = (char)strtol(h, NULL, 16);
			i += 2;
		} else if (s[i] == '%' ) {
			die("bad percent encoding '%s'", s);
		} else
			r[j++] = s[i];
	}
	r[j] = 0;
	return r;
}

static void jstr(FILE *f, const char *s)
{
	const unsigned char *p = (const unsigned char *)s;
	if (!s) {
		fputs("null", f);
		return;
	}
	fputc('"', f);
	for (; *p; p++) {
		if (*p < 0x20 || *p >= 0x7f || *p == '"' || *p == '\\')
			fprintf(f, "\\u%04x", *p);
		else
			fputc(*p, f);
	}
	fputc('"', f);
}

/* ---------- callback machinery ---------- */
#define MAXLOG 4096
static char *cblog[MAXLOG];
static int ncblog = 0;
static void logadd(char *s)
{
	if (ncblog < MAXLOG)
		cblog[ncblog++] = s;
	else
		free(s);
}
static void logclear(void)
{
	int i;
	for (i = 0; i < ncblog; i++)
		free(cblog[i]);
	ncblog = 0;
}

struct diag { char *file; int line; char *msg; int hasfile; int nested; };
static struct diag diags[MAXLOG];
static int ndiag = 0;
static int nest_level = 0;	/* >0 while a function callback parses into the auxiliary context */
static void diagclear(void)
{
	int i;
	for (i = 0; i < ndiag; i++) {
		free(diags[i].file);
		free(diags[i].msg);
	}
	ndiag = 0;
}

static void errfunc(cfg_t *cfg, const char *fmt, va_list ap)
{
	char buf[1024];
	vsnprintf(buf, sizeof buf, fmt, ap);
	if (ndiag < MAXLOG) {
		diags[ndiag].file = (cfg && cfg->filename) ? strdup(cfg->filename) : NULL;
		diags[ndiag].line = cfg ? cfg->line : -1;
		diags[ndiag].msg = strdup(buf);
		diags[ndiag].nested = nest_level;
		ndiag++;
	}
}

/* counters: n-th invocation of each callback kind, and which one fails */
enum { K_PARSE, K_VALID, K_VALID2, K_FUNC, K_NKIND };
static long cbcount[K_NKIND], cbfail[K_NKIND];
static long valid2_rewrite = 0;	/* >0: the k-th valid2 call rewrites the value */

struct uptr { int id; char *text; int freed; };
static int next_ptr_id = 1;

static void dump_vals(FILE *f, cfg_opt_t *opt);

static char *memprintf_begin(FILE **mf, char **buf, size_t *len)
{
	*mf = open_memstream(buf, len);
	return NULL;
}

static int cb_common(int kind)
{
	cbcount[kind]++;
	return cbfail[kind] == cbcount[kind];
}

/* every user pointer the value-parsing callback ever produced: each must come back through free_cb */
#define MAXCREATED 65536
static struct uptr *created[MAXCREATED];
static int ncreated = 0;
static int uptr_lost = 0;	/* produced but never handed to the release callback (counted at behaviour end) */

static int parse_cb(cfg_t *cfg, cfg_opt_t *opt, const char *value, void *result)
{
	FILE *mf; char *buf; size_t len;
	int fail = cb_common(K_PARSE);
	long n = cbcount[K_PARSE];
	memprintf_begin(&mf, &buf, &len);
	fprintf(mf, "{\"k\":\"parse\",\"o\":");
	jstr(mf, cfg_opt_name(opt));
	fprintf(mf, ",\"v\":");
	jstr(mf, value);
	fprintf(mf, ",\"n\":%ld,\"fail\":%d}", n, fail);
	fclose(mf);
	logadd(buf);
	if (fail) {
		/* a refusing callback may well have written to its result first: the verdict is the return value */
		if (opt->type == CFGT_STR) {
			static char rbuf[64];
			snprintf(rbuf, sizeof rbuf, "refused%ld", n);
			*(const char **)result = rbuf;
		}
		cfg_error(cfg, "value callback refused '%s'", value ? value : "(null)");
		return 1;
	}
	switch (opt->type) {
	case CFGT_INT:
		*(long *)result = 1000 + n;
		break;
	case CFGT_FLOAT:
		*(double *)result = (double)n + 0.5;
		break;
	case CFGT_BOOL:
		*(int *)result = (int)(n % 2);
		break;
	case CFGT_STR: {
		static char sbuf[4096];
		snprintf(sbuf, sizeof sbuf, "cb%ld:%s", n, value ? value : "(null)");
		*(const char **)result = sbuf;
		break;
	}
	case CFGT_PTR: {
		struct uptr *u = calloc(1, sizeof *u);
		u->id = (int)n;	/* = index of the producing callback invocation */
		u->text = strdup(value ? value : "(null)");
		*(void **)result = u;
		if (ncreated < MAXCREATED)
			created[ncreated++] = u;
		break;
	}
	default:
		break;
	}
	return 0;
}

#define MAXPTRS 65536
static struct uptr *allptrs[MAXPTRS];
static int nallptrs = 0;

static void free_cb(void *p)
{
	struct uptr *u = p;
	FILE *mf; char *buf; size_t len;
	memprintf_begin(&mf, &buf, &len);
	if (u->freed) {
		fprintf(mf, "{\"k\":\"free\",\"id\":%d,\"double\":true}", u->id);
	} else {
		fprintf(mf, "{\"k\":\"free\",\"id\":%d}", u->id);
		u->freed = 1;
		free(u->text);
		u->text = NULL;
	}
	fclose(mf);
	logadd(buf);
	/* the uptr shell is kept (and released at behaviour end) so that a
	 * second release of the same id is logged instead of corrupting the heap */
	if (nallptrs < MAXPTRS)
		allptrs[nallptrs++] = u;
}

static int valid_cb(cfg_t *cfg, cfg_opt_t *opt)
{
	FILE *mf; char *buf; size_t len;
	int fail = cb_common(K_VALID);
	memprintf_begin(&mf, &buf, &len);
	fprintf(mf, "{\"k\":\"valid\",\"o\":");
	jstr(mf, cfg_opt_name(opt));
	fprintf(mf, ",\"vals\":");
	dump_vals(mf, opt);
	fprintf(mf, ",\"n\":%ld,\"fail\":%d}", cbcount[K_VALID], fail);
	fclose(mf);
	logadd(buf);
	if (fail)
		cfg_error(cfg, "validation callback refused '%s'", cfg_opt_name(opt));
	return fail ? 1 : 0;
}

static int valid2_cb(cfg_t *cfg, cfg_opt_t *opt, void *value)
{
	FILE *mf; char *buf; size_t len;
	int fail = cb_common(K_VALID2);
	(void)cfg;
	memprintf_begin(&mf, &buf, &len);
	fprintf(mf, "{\"k\":\"valid2\",\"o\":");
	jstr(mf, cfg_opt_name(opt));
	fprintf(mf, ",\"v\":");
	switch (opt->type) {
	case CFGT_INT:
		fprintf(mf, "\"%ld\"", *(long *)value);
		break;
	case CFGT_FLOAT:
		fprintf(mf, "\"%a\"", *(double *)value);
		break;
	case CFGT_STR:
		jstr(mf, (const char *)value);
		break;
	default:
		fprintf(mf, "null");
	}
	fprintf(mf, ",\"n\":%ld,\"fail\":%d}", cbcount[K_VALID2], fail);
	fclose(mf);
	logadd(buf);
	if (!fail && valid2_rewrite == cbcount[K_VALID2]) {
		if (opt->type == CFGT_INT)
			*(long *)value = 7777;
		else if (opt->type == CFGT_FLOAT)
			*(double *)value = 7777.5;
	}
	return fail ? 1 : 0;
}

/* named texts for the "ev" function: ev(name) parses the text into the auxiliary context c2
 * while the outer parse is still running, and returns 0 whatever that parse returned */
#define MAXTEXT 16
static char *text_name[MAXTEXT], *text_body[MAXTEXT];
static int ntext = 0;
static long nested_status[MAXLOG];
static int nnested = 0;
static cfg_t *aux_ctx(void);

static int func_cb(cfg_t *cfg, cfg_opt_t *opt, int argc, const char **argv)
{
	FILE *mf; char *buf; size_t len;
	int i, fail = cb_common(K_FUNC);
	memprintf_begin(&mf, &buf, &len);
	fprintf(mf, "{\"k\":\"func\",\"o\":");
	jstr(mf, cfg_opt_name(opt));
	fprintf(mf, ",\"argv\":[");
	for (i = 0; i < argc; i++) {
		if (i)
			fputc(',', mf);
		jstr(mf, argv[i]);
	}
	fprintf(mf, "],\"n\":%ld,\"fail\":%d}", cbcount[K_FUNC], fail);
	fclose(mf);
	logadd(buf);
	if (fail)
		cfg_error(cfg, "function '%s' failed", cfg_opt_name(opt));
	if (!fail && (strcmp(cfg_opt_name(opt), "ev") == 0 || strcmp(cfg_opt_name(opt), "evs") == 0)) {
		/* "evs": into the very context that is being parsed */
		cfg_t *aux = strcmp(cfg_opt_name(opt), "evs") == 0 ? cfg : aux_ctx();
		int k, r;
		if (argc != 1 || !aux)
			return 1;
		for (k = 0; k < ntext; k++)
			if (strcmp(text_name[k], argv[0]) == 0)
				break;
		if (k == ntext)
			return 1;
		nest_level++;
		r = cfg_parse_buf(aux, text_body[k]);
		nest_level--;
		if (nnested < MAXLOG)
			nested_status[nnested++] = r;
	}
	return fail ? 1 : 0;
}

static void print_cb(cfg_opt_t *opt, unsigned int index, FILE *fp)
{
	fprintf(fp, "<%s#%u>", cfg_opt_name(opt), index);
}

/* print filters: filter k hides the names listed in hideset[k] (comma separated) */
#define NFILT 4
static char *hideset[NFILT];
static int filt_common(int k, cfg_opt_t *opt)
{
	const char *n = cfg_opt_name(opt), *p;
	size_t l = strlen(n);
	if (!hideset[k])
		return 0;
	for (p = hideset[k]; *p;) {
		const char *e = strchr(p, ',');
		size_t pl = e ? (size_t)(e - p) : strlen(p);
		if (pl == l && memcmp(p, n, l) == 0)
			return 1;
		p += pl;
		if (*p == ',')
			p++;
	}
	return 0;
}
static int filt0(cfg_t *c, cfg_opt_t *o) { (void)c; return filt_common(0, o); }
static int filt1(cfg_t *c, cfg_opt_t *o) { (void)c; return filt_common(1, o); }
static int filt2(cfg_t *c, cfg_opt_t *o) { (void)c; return filt_common(2, o); }
static int filt3(cfg_t *c, cfg_opt_t *o) { (void)c; return filt_common(3, o); }
static cfg_print_filter_func_t filters[NFILT] = { filt0, filt1, filt2, filt3 };

/* ---------- schema building ---------- */
struct strpool { char **v; int n, cap; };
struct schema {
	char name[64];
	cfg_opt_t *opts;
	struct strpool strs;	/* every string the declaration points to */
	struct strpool arrs;	/* every cfg_opt_t array (as char* for uniform freeing) */
	size_t *arrsz; int narrsz;
	int poisoned;
	cfg_opt_t *simple_opt[8]; int simple_slot[8]; int nsimple_opt;	/* CFG_SIMPLE_* declarations */
};
#define MAXSCHEMA 16
static struct schema schemas[MAXSCHEMA];
static int nschemas = 0;

/* storage for CFG_SIMPLE_* options: the caller's variables.  Every context gets its own set
 * (the declarations are re-pointed just before cfg_init), as a program that loads a saved
 * configuration in another run would have. */
#define MAXCTX 4
static long simple_int[MAXCTX][8];
static double simple_float[MAXCTX][8];
/* (8-byte slots: the library reaches every such variable through a cfg_value_t pointer, which
 * UBSan reports as misaligned for a 4-byte cfg_bool_t at an odd slot; no property covers that) */
static struct { cfg_bool_t b; } __attribute__((aligned(8))) simple_bool[MAXCTX][8];
static char *simple_str[MAXCTX][8];
static int nsimple = 0;


static void pool_add(struct strpool *p, char *s)
{
	if (p->n == p->cap) {
		p->cap = p->cap ? p->cap * 2 : 16;
		p->v = realloc(p->v, p->cap * sizeof(char *));
	}
	p->v[p->n++] = s;
}

static char *sdup(struct schema *S, char *decoded)
{
	if (!decoded)
		return NULL;
	pool_add(&S->strs, decoded);
	return decoded;
}

static char **lines;
static long nlines, pc;

static int split(char *line, char **tok, int max)
{
	int n = 0;
	char *p = line;
	while (*p && n < max) {
		while (*p == ' ')
			p++;
		if (!*p)
			break;
		tok[n++] = p;
		while (*p && *p != ' ')
			p++;
		if (*p)
			*p++ = 0;
	}
	return n;
}

static cfg_opt_t *read_opts(struct schema *S)
{
	int cap = 8, n = 0;
	cfg_opt_t *arr = calloc(cap + 1, sizeof(cfg_opt_t));
	int mine[8], nmine = 0, k;	/* CFG_SIMPLE_* entries of this array: (slot in S->simple_opt, index in arr) */
	int mineidx[8];
	while (pc < nlines) {
		char *line = strdup(lines[pc++]);
		char *t[16];
		int nt = split(line, t, 16);
		if (nt == 0) {
			free(line);
			continue;
		}
		if (strcmp(t[0], "e") == 0 || strcmp(t[0], "endschema") == 0) {
			free(line);
			break;
		}
		if (strcmp(t[0], "o") != 0 || nt < 5)
			die("bad schema line %ld", pc);
		if (n == cap) {
			cap *= 2;
			arr = realloc(arr, (cap + 1) * sizeof(cfg_opt_t));
		}
		cfg_opt_t *o = &arr[n++];
		memset(o, 0, sizeof *o);
		const char *ty = t[1];
		o->name = sdup(S, pct_decode(t[2]));
		o->flags = atoi(t[3]);
		int cbmask = atoi(t[4]);
		const char *def = nt > 5 ? t[5] : "~";
		int islist = (o->flags & CFGF_LIST) != 0;
		if (cbmask & 1)
			o->parsecb = parse_cb;
		if (cbmask & 2)
			o->validcb = valid_cb;
		if (cbmask & 4)
			o->validcb2 = valid2_cb;
		if (cbmask & 8)
			o->pf = print_cb;
		if (strcmp(ty, "int") == 0) {
			o->type = CFGT_INT;
			if (islist)
				o->def.parsed = sdup(S, pct_decode(def));
			else
				o->def.number = strcmp(def, "~") ? atol(def) : 0;
		} else if (strcmp(ty, "float") == 0) {
			o->type = CFGT_FLOAT;
			if (islist)
				o->def.parsed = sdup(S, pct_decode(def));
			else
				o->def.fpnumber = strcmp(def, "~") ? strtod(def, NULL) : 0;
		} else if (strcmp(ty, "bool") == 0) {
			o->type = CFGT_BOOL;
			if (islist)
				o->def.parsed = sdup(S, pct_decode(def));
			else
				o->def.boolean = strcmp(def, "~") ? atoi(def) : 0;
		} else if (strcmp(ty, "str") == 0) {
			o->type = CFGT_STR;
			if (islist)
				o->def.parsed = sdup(S, pct_decode(def));
			else
				o->def.string = sdup(S, pct_decode(def));
		} else if (strcmp(ty, "ptr") == 0) {
			o->type = CFGT_PTR;
			o->parsecb = parse_cb;
			o->freecb = free_cb;
			o->def.parsed = sdup(S, pct_decode(def));
		} else if (strcmp(ty, "func") == 0) {
			o->type = CFGT_FUNC;
			o->func = strcmp(def, "include") == 0 ? cfg_include : func_cb;
		} else if (strcmp(ty, "sec") == 0) {
			o->type = CFGT_SEC;
			o->subopts = read_opts(S);
		} else if (ty[0] == 's' && nsimple < 8 && (!strcmp(ty, "sint") || !strcmp(ty, "sfloat") || !strcmp(ty, "sbool") || !strcmp(ty, "sstr"))) {
			o->type = !strcmp(ty, "sint") ? CFGT_INT : !strcmp(ty, "sfloat") ? CFGT_FLOAT : !strcmp(ty, "sbool") ? CFGT_BOOL : CFGT_STR;
			o->simple_value.ptr = (void **)&simple_int[0][nsimple];	/* re-pointed per context at init */
			if (S->nsimple_opt < 8 && nmine < 8) {
				/* arr may move (realloc): remember the index, resolved when the array is complete */
				mine[nmine] = S->nsimple_opt;
				mineidx[nmine++] = n - 1;
				S->simple_opt[S->nsimple_opt] = NULL;
				S->simple_slot[S->nsimple_opt] = nsimple;
				S->nsimple_opt++;
			}
			nsimple++;
		} else
			die("bad option type %s", ty);
		free(line);
	}
	for (k = 0; k < nmine; k++)
		S->simple_opt[mine[k]] = &arr[mineidx[k]];
	memset(&arr[n], 0, sizeof(cfg_opt_t));	/* CFG_END */
	pool_add(&S->arrs, (char *)arr);
	S->arrsz = realloc(S->arrsz, (S->narrsz + 1) * sizeof(size_t));
	S->arrsz[S->narrsz++] = (n + 1) * sizeof(cfg_opt_t);
	return arr;
}

static void schema_release(struct schema *S, int poison)
{
	int i;
	if (S->poisoned)
		return;
	for (i = 0; i < S->strs.n; i++) {
		if (poison)
			memset(S->strs.v[i], 0xA5, strlen(S->strs.v[i]));
		free(S->strs.v[i]);
	}
	for (i = 0; i < S->arrs.n; i++) {
		if (poison)
			memset(S->arrs.v[i], 0xA5, S->arrsz[i]);
		free(S->arrs.v[i]);
	}
	free(S->strs.v);
	free(S->arrs.v);
	free(S->arrsz);
	memset(&S->strs, 0, sizeof S->strs);
	memset(&S->arrs, 0, sizeof S->arrs);
	S->arrsz = NULL;
	S->narrsz = 0;
	S->opts = NULL;
	S->poisoned = 1;
}

static struct schema *find_schema(const char *name)
{
	int i;
	for (i = 0; i < nschemas; i++)
		if (strcmp(schemas[i].name, name) == 0)
			return &schemas[i];
	return NULL;
}

/* ---------- contexts ---------- */
static cfg_t *ctx[MAXCTX];
static cfg_t *aux_ctx(void) { return ctx[1]; }
static int ctx_errfn[MAXCTX];

static int ctx_index(const char *name)
{
	if (name[0] != 'c' || name[1] < '1' || name[1] > '0' + MAXCTX)
		die("bad context '%s'", name);
	return name[1] - '1';
}

/* "c1" or "c1#2/0/1/3": stepwise address (opt index / instance index)* of a section */
static cfg_t *resolve_ctx(const char *spec)
{
	int ci = ctx_index(spec);
	cfg_t *c = ctx[ci];
	const char *p = spec + 2;
	if (!c)
		return NULL;
	if (*p == 0)
		return c;
	if (*p != '#')
		die("bad context spec '%s'", spec);
	p++;
	while (*p) {
		unsigned oi = strtoul(p, (char **)&p, 10);
		unsigned ii;
		cfg_opt_t *o;
		if (*p != '/')
			die("bad loc '%s'", spec);
		p++;
		ii = strtoul(p, (char **)&p, 10);
		if (*p == '/')
			p++;
		o = cfg_getnopt(c, oi);
		if (!o)
			return NULL;
		c = cfg_opt_getnsec(o, ii);
		if (!c)
			return NULL;
	}
	return c;
}

/* ---------- observation ---------- */
static void dump_sec(FILE *f, cfg_t *sec, int depth);

static void dump_vals(FILE *f, cfg_opt_t *opt)
{
	unsigned i, n = cfg_opt_size(opt);
	fputc('[', f);
	for (i = 0; i < n; i++) {
		if (i)
			fputc(',', f);
		switch (opt->type) {
		case CFGT_INT:
			fprintf(f, "\"%ld\"", cfg_opt_getnint(opt, i));
			break;
		case CFGT_FLOAT:
			fprintf(f, "\"%a\"", cfg_opt_getnfloat(opt, i));
			break;
		case CFGT_BOOL:
			fprintf(f, "%s", cfg_opt_getnbool(opt, i) ? "true" : "false");
			break;
		case CFGT_STR:
			jstr(f, cfg_opt_getnstr(opt, i));
			break;
		case CFGT_PTR: {
			struct uptr *u = cfg_opt_getnptr(opt, i);
			if (!u)
				fprintf(f, "null");
			else
				fprintf(f, "{\"id\":%d,\"freed\":%s}", u->id, u->freed ? "true" : "false");
			break;
		}
		case CFGT_SEC:
			dump_sec(f, cfg_opt_getnsec(opt, i), 1);
			break;
		default:
			fprintf(f, "null");
		}
	}
	fputc(']', f);
}

static const char *tyname(cfg_type_t t)
{
	switch (t) {
	case CFGT_INT: return "int";
	case CFGT_FLOAT: return "float";
	case CFGT_STR: return "str";
	case CFGT_BOOL: return "bool";
	case CFGT_SEC: return "sec";
	case CFGT_FUNC: return "func";
	case CFGT_PTR: return "ptr";
	default: return "none";
	}
}

static void dump_opt(FILE *f, cfg_opt_t *opt)
{
	fprintf(f, "{\"n\":");
	jstr(f, cfg_opt_name(opt));
	fprintf(f, ",\"ty\":\"%s\",\"fl\":%d,\"v\":", tyname(opt->type), (int)opt->flags);
	if (opt->simple_value.ptr) {
		/* CFG_SIMPLE_*: value lives in the caller's variable */
		fputc('[', f);
		switch (opt->type) {
		case CFGT_INT: fprintf(f, "\"%ld\"", cfg_opt_getnint(opt, 0)); break;
		case CFGT_FLOAT: fprintf(f, "\"%a\"", cfg_opt_getnfloat(opt, 0)); break;
		case CFGT_BOOL: fprintf(f, "%s", cfg_opt_getnbool(opt, 0) ? "true" : "false"); break;
		case CFGT_STR: jstr(f, cfg_opt_getnstr(opt, 0)); break;
		default: break;
		}
		fputc(']', f);
	} else
		dump_vals(f, opt);
	fprintf(f, ",\"c\":");
	jstr(f, cfg_opt_getcomment(opt));
	fputc('}', f);
}

static void dump_sec(FILE *f, cfg_t *sec, int depth)
{
	unsigned i, n;
	(void)depth;
	if (!sec) {
		fprintf(f, "null");
		return;
	}
	n = cfg_num(sec);
	fprintf(f, "{\"t\":");
	jstr(f, cfg_title(sec));
	fprintf(f, ",\"o\":[");
	for (i = 0; i < n; i++) {
		if (i)
			fputc(',', f);
		dump_opt(f, cfg_getnopt(sec, i));
	}
	fprintf(f, "]}");
}

/* canonical stepwise location of an option pointer inside a tree */
static int find_opt(cfg_t *sec, cfg_opt_t *target, char *buf, size_t len)
{
	unsigned i, n = cfg_num(sec);
	size_t l = strlen(buf);
	for (i = 0; i < n; i++) {
		cfg_opt_t *o = cfg_getnopt(sec, i);
		if (o == target) {
			snprintf(buf + l, len - l, "%u", i);
			return 1;
		}
		if (o->type == CFGT_SEC) {
			unsigned j, m = cfg_opt_size(o);
			for (j = 0; j < m; j++) {
				snprintf(buf + l, len - l, "%u/%u/", i, j);
				if (find_opt(cfg_opt_getnsec(o, j), target, buf, len))
					return 1;
				buf[l] = 0;
			}
		}
	}
	return 0;
}

static int find_sec(cfg_t *sec, cfg_t *target, char *buf, size_t len)
{
	unsigned i, n = cfg_num(sec);
	size_t l = strlen(buf);
	if (sec == target)
		return 1;
	for (i = 0; i < n; i++) {
		cfg_opt_t *o = cfg_getnopt(sec, i);
		if (o->type == CFGT_SEC) {
			unsigned j, m = cfg_opt_size(o);
			for (j = 0; j < m; j++) {
				snprintf(buf + l, len - l, "%u/%u/", i, j);
				if (find_sec(cfg_opt_getnsec(o, j), target, buf, len))
					return 1;
				buf[l] = 0;
			}
		}
	}
	return 0;
}

static int count_fds(void)
{
	DIR *d = opendir("/proc/self/fd");
	struct dirent *e;
	int n = 0;
	if (!d)
		return -1;
	while ((e = readdir(d)))
		if (e->d_name[0] != '.')
			n++;
	closedir(d);
	return n - 1;		/* minus the DIR's own descriptor */
}

static long stray_stdout(void)
{
	struct stat st;
	fflush(stdout);
	if (fstat(stdout_fd_file, &st) != 0)
		return -1;
	return (long)st.st_size;
}

static int want_ctx_dump = 1;
static int pending_errno = 0;
#define APPLY_ERRNO() do { errno = pending_errno; pending_errno = 0; } while (0)

static void emit(const char *cmd, const char *retjson, const char *extra)
{
	int i, first = 1;
	fprintf(out, "{\"i\":%ld,\"cmd\":\"%s\",\"ret\":%s", cmd_index, cmd, retjson);
	if (extra && *extra)
		fprintf(out, ",%s", extra);
	fprintf(out, ",\"nested\":[");
	for (i = 0; i < nnested; i++)
		fprintf(out, "%s{\"ret\":%ld}", i ? "," : "", nested_status[i]);
	nnested = 0;
	fprintf(out, "],\"ndiag_nested\":%d", (int)({ int c_ = 0, j_; for (j_ = 0; j_ < ndiag; j_++) c_ += diags[j_].nested != 0; c_; }));
	fprintf(out, ",\"diag\":[");
	for (i = 0, first = 1; i < ndiag; i++) {
		if (diags[i].nested)
			continue;	/* diagnostics of a nested parse into another context are counted apart */
		if (!first)
			fputc(',', out);
		first = 0;
		fprintf(out, "{\"file\":");
		jstr(out, diags[i].file);
		fprintf(out, ",\"line\":%d,\"msg\":", diags[i].line);
		jstr(out, diags[i].msg);
		fputc('}', out);
	}
	fprintf(out, "],\"cb\":[");
	for (i = 0; i < ncblog; i++) {
		if (i)
			fputc(',', out);
		fputs(cblog[i], out);
	}
	fprintf(out, "],\"out\":%ld,\"live\":%ld,\"streams\":%ld,\"fds\":%d,\"incsp\":%d,\"allocs\":%ld,\"oomhit\":%ld",
		stray_stdout(), vf_live_blocks, vf_open_streams, count_fds(), cfg_include_stack_ptr,
		vf_alloc_requests, vf_failed);
	if (vf_failed && vf_failed_fn)
		fprintf(out, ",\"oomfn\":\"%s\"", vf_failed_fn);
	if (want_ctx_dump) {
		fprintf(out, ",\"ctx\":{");
		for (i = 0, first = 1; i < MAXCTX; i++) {
			if (!ctx[i])
				continue;
			if (!first)
				fputc(',', out);
			first = 0;
			fprintf(out, "\"c%d\":", i + 1);
			dump_sec(out, ctx[i], 0);
		}
		fputc('}', out);
	}
	fprintf(out, "}\n");
	fflush(out);
	diagclear();
	logclear();
}

static void emit_int(const char *cmd, long v)
{
	char b[64];
	snprintf(b, sizeof b, "%ld", v);
	emit(cmd, b, NULL);
}

/* ---------- lifecycle of a behaviour ---------- */
static char scratch[PATH_MAX];

static void rm_rf(const char *path)
{
	char cmd[PATH_MAX + 64];
	snprintf(cmd, sizeof cmd, "rm -rf -- '%s'", path);
	if (system(cmd) != 0) { /* ignore */ }
}

/* the caller owns what a CFG_SIMPLE_STR variable points to (allocated by the library) */
static void simple_release(int ci)
{
	int k;
	for (k = 0; k < 8; k++) {
		if (simple_str[ci][k]) {
			free(simple_str[ci][k]);
			vf_live_blocks--;
		}
		simple_str[ci][k] = NULL;
		simple_int[ci][k] = 0; simple_float[ci][k] = 0; simple_bool[ci][k].b = 0;
	}
}

static char start_cwd[PATH_MAX];

static void reset_all(void)
{
	int i;
	vf_fail_at = 0;
	if (start_cwd[0] && chdir(start_cwd) != 0) { /* ignore */ }
	for (i = 0; i < MAXCTX; i++) {
		if (ctx[i])
			cfg_free(ctx[i]);
		ctx[i] = NULL;
	}
	for (i = 0; i < nschemas; i++)
		schema_release(&schemas[i], 0);
	nschemas = 0;
	nsimple = 0;
	for (i = 0; i < MAXCTX; i++)
		simple_release(i);
	for (i = 0; i < ntext; i++) {
		free(text_name[i]);
		free(text_body[i]);
	}
	ntext = 0;
	nnested = 0;
	nest_level = 0;
	uptr_lost = 0;
	for (i = 0; i < ncreated; i++) {
		if (!created[i]->freed) {
			uptr_lost++;
			free(created[i]->text);
			free(created[i]);
		}
	}
	ncreated = 0;
	for (i = 0; i < nallptrs; i++)
		free(allptrs[i]);
	nallptrs = 0;
	next_ptr_id = 1;
	for (i = 0; i < K_NKIND; i++)
		cbcount[i] = cbfail[i] = 0;
	valid2_rewrite = 0;
	for (i = 0; i < NFILT; i++) {
		free(hideset[i]);
		hideset[i] = NULL;
	}
	diagclear();
	logclear();
	vf_failed = 0;
	vf_failed_fn = NULL;
	vf_alloc_requests = 0;
}

static void on_alarm(int sig)
{
	char b[400];
	int n;
	(void)sig;
	n = snprintf(b, sizeof b, "{\"hang\":\"%s\",\"i\":%ld}\n", cur_id, cmd_index);
	if (write(fileno(out), b, n) < 0) { /* ignore */ }
	normal_exit = 1;
	_exit(3);
}

static void on_exit_hook(void)
{
	if (!normal_exit) {
		fprintf(out, "{\"exit_called\":\"%s\",\"i\":%ld}\n", cur_id, cmd_index);
		fflush(out);
	}
}

static char *slurp(const char *path, long *len)
{
	FILE *f = fopen(path, "rb");
	char *b;
	long n;
	if (!f)
		die("cannot open %s", path);
	fseek(f, 0, SEEK_END);
	n = ftell(f);
	fseek(f, 0, SEEK_SET);
	b = malloc(n + 1);
	if (fread(b, 1, n, f) != (size_t)n)
		die("short read");
	b[n] = 0;
	fclose(f);
	*len = n;
	return b;
}

/* replace "$R" prefix by the scratch directory */
static char *fs_path(const char *decoded)
{
	char *r;
	if (!decoded)
		return NULL;
	if (decoded[0] == '$' && decoded[1] == 'R') {
		r = malloc(strlen(scratch) + strlen(decoded) + 1);
		sprintf(r, "%s%s", scratch, decoded + 2);
		return r;
	}
	return strdup(decoded);
}

static char *subst_root(char *decoded)
{
	/* replace every occurrence of "$R" inside a text (e.g. include("$R/a.conf")) */
	char *r, *p, *q;
	size_t n = 0, sl = strlen(scratch);
	if (!decoded)
		return NULL;
	for (p = decoded; (p = strstr(p, "$R")); p += 2)
		n++;
	if (!n)
		return decoded;
	r = malloc(strlen(decoded) + n * sl + 1);
	q = r;
	for (p = decoded; *p;) {
		if (p[0] == '$' && p[1] == 'R') {
			memcpy(q, scratch, sl);
			q += sl;
			p += 2;
		} else
			*q++ = *p++;
	}
	*q = 0;
	free(decoded);
	return r;
}

#define ARG(k) (k < nt ? t[k] : (die("missing arg %d for '%s' at line %ld", k, t[0], pc), ""))

int main(int argc, char **argv)
{
	long len, i;
	char *script, *p;
	char tmpl[PATH_MAX];

	if (argc < 4) {
		fprintf(stderr, "usage: driver script out scratchdir\n");
		return 64;
	}
	out = fopen(argv[2], "w");
	if (!out)
		die("cannot open %s", argv[2]);
	snprintf(scratch, sizeof scratch, "%s", argv[3]);
	mkdir(scratch, 0755);
	/* capture our own stdout: anything arriving there is stray library output */
	snprintf(tmpl, sizeof tmpl, "%s/stdout.XXXXXX", scratch);
	stdout_fd_file = mkstemp(tmpl);
	if (stdout_fd_file < 0)
		die("mkstemp");
	unlink(tmpl);
	dup2(stdout_fd_file, 1);
	atexit(on_exit_hook);
	signal(SIGALRM, on_alarm);

	script = slurp(argv[1], &len);
	nlines = 1;
	for (p = script; *p; p++)
		if (*p == '\n')
			nlines++;
	lines = calloc(nlines + 1, sizeof(char *));
	nlines = 0;
	for (p = script; *p;) {
		char *e = strchr(p, '\n');
		lines[nlines++] = p;
		if (!e)
			break;
		*e = 0;
		p = e + 1;
	}

	for (pc = 0; pc < nlines;) {
		char *line = strdup(lines[pc++]);
		char *t[64];
		int nt = split(line, t, 64);
		if (nt == 0 || t[0][0] == '#') {
			free(line);
			continue;
		}
		cmd_index++;
		errno = 0;

		if (strcmp(t[0], "begin") == 0) {
			if (!start_cwd[0] && !getcwd(start_cwd, sizeof start_cwd))
				start_cwd[0] = 0;
			reset_all();
			rm_rf(scratch);		/* every behaviour starts from an empty scratch tree */
			mkdir(scratch, 0755);
			snprintf(cur_id, sizeof cur_id, "%s", ARG(1));
			cmd_index = 0;
			alarm(nt > 2 ? atoi(t[2]) : 20);
			fprintf(out, "{\"begin\":\"%s\",\"live\":%ld,\"streams\":%ld,\"fds\":%d,\"out\":%ld,\"scratch\":\"%s\"}\n",
				cur_id, vf_live_blocks, vf_open_streams, count_fds(), stray_stdout(), scratch);
			fflush(out);
		} else if (strcmp(t[0], "end") == 0) {
			reset_all();
			alarm(0);
			fprintf(out, "{\"end\":\"%s\",\"live\":%ld,\"streams\":%ld,\"fds\":%d,\"out\":%ld,\"incsp\":%d,\"uptr_lost\":%d}\n",
				cur_id, vf_live_blocks, vf_open_streams, count_fds(), stray_stdout(), cfg_include_stack_ptr, uptr_lost);
			fflush(out);
		} else if (strcmp(t[0], "dump") == 0) {
			want_ctx_dump = atoi(ARG(1));
		} else if (strcmp(t[0], "schema") == 0) {
			struct schema *S;
			if (nschemas == MAXSCHEMA)
				die("too many schemas");
			S = &schemas[nschemas++];
			memset(S, 0, sizeof *S);
			snprintf(S->name, sizeof S->name, "%s", ARG(1));
			S->opts = read_opts(S);
		} else if (strcmp(t[0], "init") == 0) {
			int ci = ctx_index(ARG(1));
			struct schema *S = find_schema(ARG(2));
			int flags = atoi(ARG(3));
			int poison = nt > 4 && strcmp(t[4], "poison") == 0;
			int noerr = nt > 4 && strcmp(t[4], "noerrfn") == 0;
			if (!S || S->poisoned)
				die("unknown/poisoned schema %s", t[2]);
			if (ctx[ci])
				die("context in use");
			{
				int k;
				for (k = 0; k < S->nsimple_opt; k++) {
					cfg_opt_t *so = S->simple_opt[k];
					int sl = S->simple_slot[k];
					switch (so->type) {
					case CFGT_INT: so->simple_value.number = &simple_int[ci][sl]; break;
					case CFGT_FLOAT: so->simple_value.fpnumber = &simple_float[ci][sl]; break;
					case CFGT_BOOL: so->simple_value.boolean = &simple_bool[ci][sl].b; break;
					default: so->simple_value.string = &simple_str[ci][sl]; break;
					}
				}
			}
			ctx[ci] = cfg_init(S->opts, flags);
			if (ctx[ci] && !noerr)
				cfg_set_error_function(ctx[ci], errfunc);
			ctx_errfn[ci] = !noerr;
			if (poison)
				schema_release(S, 1);
			emit_int("init", ctx[ci] != NULL);
		} else if (strcmp(t[0], "free") == 0) {
			int ci = ctx_index(ARG(1));
			int r = cfg_free(ctx[ci]);
			ctx[ci] = NULL;
			simple_release(ci);
			emit_int("free", r);
		} else if (strcmp(t[0], "parsebuf") == 0) {
			cfg_t *c = resolve_ctx(ARG(1));
			char *text = subst_root(pct_decode(ARG(2)));
			int r;
			APPLY_ERRNO();
			r = cfg_parse_buf(c, text);
			emit_int("parsebuf", r);
			free(text);
		} else if (strcmp(t[0], "parsefp") == 0) {
			cfg_t *c = resolve_ctx(ARG(1));
			char *text = subst_root(pct_decode(ARG(2)));
			FILE *fp = tmpfile();
			int r;
			fputs(text ? text : "", fp);
			rewind(fp);
			r = cfg_parse_fp(c, fp);
			fclose(fp);
			emit_int("parsefp", r);
			free(text);
		} else if (strcmp(t[0], "parsefile") == 0) {
			cfg_t *c = resolve_ctx(ARG(1));
			char *d = pct_decode(ARG(2));
			char *name = fs_path(d);
			int r = cfg_parse(c, name);
			emit_int("parsefile", r);
			free(name);
			free(d);
		} else if (strcmp(t[0], "setint") == 0 || strcmp(t[0], "osetint") == 0) {
			cfg_t *c = resolve_ctx(ARG(1));
			char *path = pct_decode(ARG(2));
			unsigned idx = atoi(ARG(3));
			long v = strtol(ARG(4), NULL, 10);
			int r = t[0][0] == 'o' ? cfg_opt_setnint(cfg_getopt(c, path), v, idx)
				: (idx == 0 && (cmd_index & 1)) ? cfg_setint(c, path, v)	/* the index-less wrapper, every other call */
				: cfg_setnint(c, path, v, idx);
			emit_int(t[0], r);
			free(path);
		} else if (strcmp(t[0], "setfloat") == 0 || strcmp(t[0], "osetfloat") == 0) {
			cfg_t *c = resolve_ctx(ARG(1));
			char *path = pct_decode(ARG(2));
			unsigned idx = atoi(ARG(3));
			double v = strtod(ARG(4), NULL);
			int r = t[0][0] == 'o' ? cfg_opt_setnfloat(cfg_getopt(c, path), v, idx)
				: (idx == 0 && (cmd_index & 1)) ? cfg_setfloat(c, path, v)	/* the index-less wrapper, every other call */
				: cfg_setnfloat(c, path, v, idx);
			emit_int(t[0], r);
			free(path);
		} else if (strcmp(t[0], "setbool") == 0 || strcmp(t[0], "osetbool") == 0) {
			cfg_t *c = resolve_ctx(ARG(1));
			char *path = pct_decode(ARG(2));
			unsigned idx = atoi(ARG(3));
			int v = atoi(ARG(4));
			int r = t[0][0] == 'o' ? cfg_opt_setnbool(cfg_getopt(c, path), v, idx)
				: (idx == 0 && (cmd_index & 1)) ? cfg_setbool(c, path, v)
				: cfg_setnbool(c, path, v, idx);
			emit_int(t[0], r);
			free(path);
		} else if (strcmp(t[0], "setstr") == 0 || strcmp(t[0], "osetstr") == 0) {
			cfg_t *c = resolve_ctx(ARG(1));
			char *path = pct_decode(ARG(2));
			unsigned idx = atoi(ARG(3));
			char *v = pct_decode(ARG(4));
			int r = t[0][0] == 'o' ? cfg_opt_setnstr(cfg_getopt(c, path), v, idx)
				: (idx == 0 && (cmd_index & 1)) ? cfg_setstr(c, path, v)
				: cfg_setnstr(c, path, v, idx);
			emit_int(t[0], r);
			free(path);
			free(v);
		} else if (strcmp(t[0], "setlist") == 0 || strcmp(t[0], "addlist") == 0) {
			/* setlist ctx path type n v1 v2 v3 (n <= 3) */
			cfg_t *c = resolve_ctx(ARG(1));
			char *path = pct_decode(ARG(2));
			const char *ty = ARG(3);
			unsigned n = atoi(ARG(4));
			int add = t[0][0] == 'a', r = -2;
			if (n > 3)
				die("list too long");
			if (strcmp(ty, "int") == 0) {
				int a[3] = { 0, 0, 0 }; unsigned k;
				for (k = 0; k < n; k++) a[k] = atoi(ARG(5 + k));
				r = add ? cfg_addlist(c, path, n, a[0], a[1], a[2]) : cfg_setlist(c, path, n, a[0], a[1], a[2]);
			} else if (strcmp(ty, "float") == 0) {
				double a[3] = { 0, 0, 0 }; unsigned k;
				for (k = 0; k < n; k++) a[k] = strtod(ARG(5 + k), NULL);
				r = add ? cfg_addlist(c, path, n, a[0], a[1], a[2]) : cfg_setlist(c, path, n, a[0], a[1], a[2]);
			} else if (strcmp(ty, "bool") == 0) {
				cfg_bool_t a[3] = { 0, 0, 0 }; unsigned k;
				for (k = 0; k < n; k++) a[k] = atoi(ARG(5 + k));
				r = add ? cfg_addlist(c, path, n, a[0], a[1], a[2]) : cfg_setlist(c, path, n, a[0], a[1], a[2]);
			} else if (strcmp(ty, "str") == 0) {
				char *a[3] = { NULL, NULL, NULL }; unsigned k;
				for (k = 0; k < n; k++) a[k] = pct_decode(ARG(5 + k));
				r = add ? cfg_addlist(c, path, n, a[0], a[1], a[2]) : cfg_setlist(c, path, n, a[0], a[1], a[2]);
				for (k = 0; k < n; k++) free(a[k]);
			} else
				die("bad list type");
			emit_int(t[0], r);
			free(path);
		} else if (strcmp(t[0], "setmulti") == 0 || strcmp(t[0], "osetmulti") == 0) {
			cfg_t *c = resolve_ctx(ARG(1));
			char *path = pct_decode(ARG(2));
			unsigned n = atoi(ARG(3)), k;
			char **v = calloc(n + 1, sizeof(char *));
			int r;
			for (k = 0; k < n; k++)
				v[k] = pct_decode(ARG(4 + k));
			APPLY_ERRNO();
			r = t[0][0] == 'o' ? cfg_opt_setmulti(c, cfg_getopt(c, path), n, v) : cfg_setmulti(c, path, n, v);
			emit_int(t[0], r);
			for (k = 0; k < n; k++)
				free(v[k]);
			free(v);
			free(path);
		} else if (strcmp(t[0], "setopt") == 0) {
			cfg_t *c = resolve_ctx(ARG(1));
			char *path = pct_decode(ARG(2));
			char *v = pct_decode(ARG(3));
			cfg_opt_t *o = cfg_getopt(c, path);
			cfg_value_t *r;
			APPLY_ERRNO();
			r = cfg_setopt(c, o, v);
			emit_int("setopt", r != NULL);
			free(path);
			free(v);
		} else if (strcmp(t[0], "setcomment") == 0 || strcmp(t[0], "osetcomment") == 0) {
			cfg_t *c = resolve_ctx(ARG(1));
			char *path = pct_decode(ARG(2));
			char *v = pct_decode(ARG(3));
			int r = t[0][0] == 'o' ? cfg_opt_setcomment(cfg_getopt(c, path), v) : cfg_setcomment(c, path, v);
			emit_int(t[0], r);
			free(path);
			free(v);
		} else if (strcmp(t[0], "addtsec") == 0) {
			cfg_t *c = resolve_ctx(ARG(1));
			char *path = pct_decode(ARG(2));
			char *v = pct_decode(ARG(3));
			cfg_t *r = cfg_addtsec(c, path, v);
			emit_int("addtsec", r != NULL);
			free(path);
			free(v);
		} else if (strcmp(t[0], "rmnsec") == 0 || strcmp(t[0], "ormnsec") == 0) {
			cfg_t *c = resolve_ctx(ARG(1));
			char *path = pct_decode(ARG(2));
			unsigned idx = atoi(ARG(3));
			int r = t[0][0] == 'o' ? cfg_opt_rmnsec(cfg_getopt(c, path), idx) : cfg_rmnsec(c, path, idx);
			emit_int(t[0], r);
			free(path);
		} else if (strcmp(t[0], "rmtsec") == 0 || strcmp(t[0], "ormtsec") == 0) {
			cfg_t *c = resolve_ctx(ARG(1));
			char *path = pct_decode(ARG(2));
			char *v = pct_decode(ARG(3));
			int r = t[0][0] == 'o' ? cfg_opt_rmtsec(cfg_getopt(c, path), v) : cfg_rmtsec(c, path, v);
			emit_int(t[0], r);
			free(path);
			free(v);
		} else if (strcmp(t[0], "rmsec") == 0) {
			cfg_t *c = resolve_ctx(ARG(1));
			char *path = pct_decode(ARG(2));
			int r = cfg_rmsec(c, path);
			emit_int("rmsec", r);
			free(path);
		} else if (strcmp(t[0], "getopt") == 0) {
			/* canonical location of cfg_getopt(path) inside the root tree */
			int ci = ctx_index(ARG(1));
			cfg_t *c = resolve_ctx(ARG(1));
			char *path = pct_decode(ARG(2));
			cfg_opt_t *o = cfg_getopt(c, path);
			char loc[512] = "", js[600];
			if (!o)
				snprintf(js, sizeof js, "null");
			else if (find_opt(ctx[ci], o, loc, sizeof loc))
				snprintf(js, sizeof js, "\"%s\"", loc);
			else
				snprintf(js, sizeof js, "\"?\"");
			emit("getopt", js, NULL);
			free(path);
		} else if (strcmp(t[0], "getsec") == 0 || strcmp(t[0], "gettsec") == 0 || strcmp(t[0], "getnsec") == 0) {
			int ci = ctx_index(ARG(1));
			cfg_t *c = resolve_ctx(ARG(1));
			char *path = pct_decode(ARG(2));
			cfg_t *s;
			char loc[512] = "", js[600];
			if (t[0][3] == 's')
				s = cfg_getsec(c, path);
			else if (t[0][3] == 't') {
				char *ti = pct_decode(ARG(3));
				s = cfg_gettsec(c, path, ti);
				free(ti);
			} else
				s = cfg_getnsec(c, path, atoi(ARG(3)));
			if (!s)
				snprintf(js, sizeof js, "null");
			else if (find_sec(ctx[ci], s, loc, sizeof loc))
				snprintf(js, sizeof js, "\"%s\"", loc);
			else
				snprintf(js, sizeof js, "\"?\"");
			emit(t[0], js, NULL);
			free(path);
		} else if (strcmp(t[0], "get") == 0) {
			/* by-path getters: get ctx kind path idx ; kind in int float bool str size comment */
			cfg_t *c = resolve_ctx(ARG(1));
			const char *kind = ARG(2);
			char *path = pct_decode(ARG(3));
			unsigned idx = nt > 4 ? atoi(t[4]) : 0;
			char *buf; size_t bl; FILE *mf = open_memstream(&buf, &bl);
			if (strcmp(kind, "int") == 0)
				fprintf(mf, "\"%ld\"", cfg_getnint(c, path, idx));
			else if (strcmp(kind, "float") == 0)
				fprintf(mf, "\"%a\"", cfg_getnfloat(c, path, idx));
			else if (strcmp(kind, "bool") == 0)
				fprintf(mf, "%s", cfg_getnbool(c, path, idx) ? "true" : "false");
			else if (strcmp(kind, "str") == 0)
				jstr(mf, cfg_getnstr(c, path, idx));
			else if (strcmp(kind, "size") == 0)
				fprintf(mf, "%u", cfg_size(c, path));
			else if (strcmp(kind, "comment") == 0)
				jstr(mf, cfg_getcomment(c, path));
			else
				die("bad get kind");
			fclose(mf);
			emit("get", buf, NULL);
			free(buf);
			free(path);
		} else if (strcmp(t[0], "print") == 0 || strcmp(t[0], "optprint") == 0) {
			/* print ctxspec indent   |  optprint ctxspec optpath indent */
			cfg_t *c = resolve_ctx(ARG(1));
			char *buf = NULL, *js; size_t bl = 0, jl;
			FILE *mf, *jf;
			int r;
			if (!c) {
				emit_int(t[0], -2);	/* no such context (e.g. cfg_init failed) */
				free(line);
				continue;
			}
			mf = open_memstream(&buf, &bl);
			if (t[0][0] == 'p') {
				int indent = nt > 2 ? atoi(t[2]) : 0;
				r = indent ? cfg_print_indent(c, mf, indent) : cfg_print(c, mf);
			} else {
				char *path = pct_decode(ARG(2));
				int indent = nt > 3 ? atoi(t[3]) : 0;
				cfg_opt_t *o = cfg_getopt(c, path);
				r = indent ? cfg_opt_print_indent(o, mf, indent) : cfg_opt_print(o, mf);
				free(path);
			}
			fclose(mf);
			jf = open_memstream(&js, &jl);
			fprintf(jf, "\"text\":");
			jstr(jf, buf);
			fclose(jf);
			{
				char rb[32];
				snprintf(rb, sizeof rb, "%d", r);
				emit(t[0], rb, js);
			}
			free(js);
			free(buf);
		} else if (strcmp(t[0], "reparse") == 0) {
			/* reparse src dst : print src into memory, parse the text into dst (C05) */
			cfg_t *s = resolve_ctx(ARG(1)), *d = resolve_ctx(ARG(2));
			char *buf = NULL, *js; size_t bl = 0, jl;
			FILE *mf = open_memstream(&buf, &bl), *jf;
			int r;
			cfg_print(s, mf);
			fclose(mf);
			r = cfg_parse_buf(d, buf);
			jf = open_memstream(&js, &jl);
			fprintf(jf, "\"text\":");
			jstr(jf, buf);
			fclose(jf);
			{
				char rb[32];
				snprintf(rb, sizeof rb, "%d", r);
				emit("reparse", rb, js);
			}
			free(js);
			free(buf);
		} else if (strcmp(t[0], "filterdef") == 0) {
			int k = atoi(ARG(1));
			if (k < 0 || k >= NFILT)
				die("bad filter");
			free(hideset[k]);
			hideset[k] = pct_decode(ARG(2));
		} else if (strcmp(t[0], "filter") == 0) {
			/* filter ctxspec k   (k = -1 removes) */
			cfg_t *c = resolve_ctx(ARG(1));
			int k = atoi(ARG(2));
			cfg_set_print_filter_func(c, k < 0 ? NULL : filters[k]);
			emit_int("filter", 0);
		} else if (strcmp(t[0], "printfunc") == 0) {
			cfg_t *c = resolve_ctx(ARG(1));
			char *path = pct_decode(ARG(2));
			int on = atoi(ARG(3));
			cfg_set_print_func(c, path, on ? print_cb : NULL);
			emit_int("printfunc", 0);
			free(path);
		} else if (strcmp(t[0], "validate") == 0 || strcmp(t[0], "validate2") == 0) {
			cfg_t *c = resolve_ctx(ARG(1));
			char *path = pct_decode(ARG(2));
			int on = atoi(ARG(3));
			if (t[0][8] == '2')
				cfg_set_validate_func2(c, path, on ? valid2_cb : NULL);
			else
				cfg_set_validate_func(c, path, on ? valid_cb : NULL);
			emit_int(t[0], 0);
			free(path);
		} else if (strcmp(t[0], "failat") == 0) {
			const char *k = ARG(1);
			long n = atol(ARG(2));
			if (strcmp(k, "parse") == 0) cbfail[K_PARSE] = n;
			else if (strcmp(k, "valid") == 0) cbfail[K_VALID] = n;
			else if (strcmp(k, "valid2") == 0) cbfail[K_VALID2] = n;
			else if (strcmp(k, "func") == 0) cbfail[K_FUNC] = n;
			else if (strcmp(k, "rewrite2") == 0) valid2_rewrite = n;
			else die("bad failat kind");
		} else if (strcmp(t[0], "searchpath") == 0) {
			cfg_t *c = resolve_ctx(ARG(1));
			char *d = pct_decode(ARG(2));
			char *dir = fs_path(d);
			int r = cfg_add_searchpath(c, dir);
			emit_int("searchpath", r);
			free(dir);
			free(d);
		} else if (strcmp(t[0], "resolve") == 0) {
			cfg_t *c = resolve_ctx(ARG(1));
			char *d = pct_decode(ARG(2));
			char *name = fs_path(d);
			char *r = cfg_searchpath(c->path, name);
			char *js; size_t jl; FILE *jf = open_memstream(&js, &jl);
			/* report relative to the scratch root */
			if (r && strncmp(r, scratch, strlen(scratch)) == 0) {
				char *rel = malloc(strlen(r) + 3);
				sprintf(rel, "$R%s", r + strlen(scratch));
				jstr(jf, rel);
				free(rel);
			} else
				jstr(jf, r);
			fclose(jf);
			emit("resolve", js, NULL);
			free(js);
			if (r)
				vf_free(r);
			free(name);
			free(d);
		} else if (strcmp(t[0], "tilde") == 0) {
			char *d = pct_decode(ARG(1));
			char *r = cfg_tilde_expand(d);
			char *js; size_t jl; FILE *jf = open_memstream(&js, &jl);
			jstr(jf, r);
			fclose(jf);
			emit("tilde", js, NULL);
			free(js);
			if (r)
				vf_free(r);
			free(d);
		} else if (strcmp(t[0], "parsebool") == 0) {
			char *d = pct_decode(ARG(1));
			emit_int("parsebool", cfg_parse_boolean(d));
			free(d);
		} else if (strcmp(t[0], "env") == 0) {
			if (strcmp(ARG(1), "set") == 0) {
				char *v = pct_decode(ARG(3));
				setenv(ARG(2), v ? v : "", 1);
				free(v);
			} else
				unsetenv(ARG(2));
		} else if (strcmp(t[0], "fs") == 0) {
			char *d = pct_decode(ARG(2));
			char *path = fs_path(d);
			if (strcmp(t[1], "file") == 0) {
				char *content = subst_root(pct_decode(ARG(3)));
				FILE *f = fopen(path, "w");
				if (!f)
					die("cannot create %s", path);
				fputs(content ? content : "", f);
				fclose(f);
				free(content);
			} else if (strcmp(t[1], "dir") == 0) {
				mkdir(path, 0755);
			} else if (strcmp(t[1], "fifo") == 0) {
				mkfifo(path, 0644);
			} else if (strcmp(t[1], "chmod") == 0) {
				chmod(path, strtol(ARG(3), NULL, 8));
			} else if (strcmp(t[1], "rm") == 0) {
				rm_rf(path);
			} else
				die("bad fs op");
			free(path);
			free(d);
		} else if (strcmp(t[0], "text") == 0) {
			/* text <name> <content> : a named text for ev(name) */
			if (ntext >= MAXTEXT)
				die("too many texts");
			text_name[ntext] = pct_decode(ARG(1));
			text_body[ntext] = subst_root(pct_decode(ARG(2)));
			ntext++;
		} else if (strcmp(t[0], "chdir") == 0) {
			/* working directory of the process (restored at the next begin) */
			char *d = pct_decode(ARG(1));
			char *path = fs_path(d);
			if (chdir(path) != 0)
				die("cannot chdir to %s", path);
			free(path);
			free(d);
		} else if (strcmp(t[0], "oom") == 0) {
			vf_alloc_requests = 0;
			vf_failed = 0;
			vf_failed_fn = NULL;
			vf_fail_at = atol(ARG(1));
		} else if (strcmp(t[0], "errno") == 0) {
			/* ambient errno for the next parsebuf / setmulti / setopt call */
			pending_errno = atoi(ARG(1));
		} else if (strcmp(t[0], "numopts") == 0) {
			cfg_t *c = resolve_ctx(ARG(1));
			emit_int("numopts", cfg_num(c));
		} else if (strcmp(t[0], "obs") == 0) {
			emit_int("obs", 0);
		} else
			die("unknown command '%s' at line %ld", t[0], pc);
		free(line);
	}
	normal_exit = 1;
	fclose(out);
	for (i = 0; i < 0; i++) { }
	return 0;
}
