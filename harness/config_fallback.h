/* used only when /repo/config.h is absent (the repository is normally configured) */
#define HAVE_FMEMOPEN 1
#define HAVE_REALLOCARRAY 1
#define HAVE_STRCASECMP 1
#define HAVE_STRDUP 1
#define HAVE_STRNDUP 1
#define HAVE_STRINGS_H 1
#define HAVE_STRING_H 1
#define HAVE_SYS_STAT_H 1
#define HAVE_UNISTD_H 1
#define PACKAGE "confuse"
#define PACKAGE_VERSION "3.3"
#define PACKAGE_STRING "libConfuse 3.3"
