#define VF_SHIM_IMPL
#include "alloc_shim.h"
#include <errno.h>

/* counters read by the driver */
long vf_live_blocks = 0;      /* blocks handed out by the library files and not yet released */
long vf_open_streams = 0;     /* FILE* opened by the library files and not yet closed */
long vf_alloc_requests = 0;   /* allocation requests issued by confuse.c (site 1) since last arm */
long vf_fail_at = 0;          /* >0: the vf_fail_at-th request of site 1 (counted from arming) fails */
long vf_failed = 0;           /* number of injected failures that actually happened */
const char *vf_failed_fn = NULL;

static int should_fail(int site, const char *fn)
{
	if (site != 1)
		return 0;
	vf_alloc_requests++;
	if (vf_fail_at > 0 && vf_alloc_requests == vf_fail_at) {
		vf_failed++;
		vf_failed_fn = fn;
		fprintf(stderr, "VF-OOM-INJECT fn=%s\n", fn);
		errno = ENOMEM;
		return 1;
	}
	return 0;
}

void *vf_malloc(size_t n, int site, const char *fn)
{
	void *p;
	if (should_fail(site, fn))
		return NULL;
	p = malloc(n);
	if (p)
		vf_live_blocks++;
	return p;
}

void *vf_calloc(size_t a, size_t b, int site, const char *fn)
{
	void *p;
	if (should_fail(site, fn))
		return NULL;
	p = calloc(a, b);
	if (p)
		vf_live_blocks++;
	return p;
}

void *vf_realloc(void *old, size_t n, int site, const char *fn)
{
	void *p;
	if (should_fail(site, fn))
		return NULL;
	p = realloc(old, n);
	if (!old && p)
		vf_live_blocks++;
	return p;
}

void *vf_reallocarray(void *old, size_t a, size_t b, int site, const char *fn)
{
	void *p;
	if (should_fail(site, fn))
		return NULL;
	p = reallocarray(old, a, b);
	if (!old && p)
		vf_live_blocks++;
	return p;
}

char *vf_strdup(const char *s, int site, const char *fn)
{
	char *p;
	if (should_fail(site, fn))
		return NULL;
	p = strdup(s);
	if (p)
		vf_live_blocks++;
	return p;
}

char *vf_strndup(const char *s, size_t n, int site, const char *fn)
{
	char *p;
	if (should_fail(site, fn))
		return NULL;
	p = strndup(s, n);
	if (p)
		vf_live_blocks++;
	return p;
}

void vf_free(void *p)
{
	if (p)
		vf_live_blocks--;
	free(p);
}

FILE *vf_fopen(const char *path, const char *mode)
{
	FILE *fp = fopen(path, mode);
	if (fp)
		vf_open_streams++;
	return fp;
}

FILE *vf_fmemopen(void *buf, size_t n, const char *mode)
{
	FILE *fp = fmemopen(buf, n, mode);
	if (fp)
		vf_open_streams++;
	return fp;
}

int vf_fclose(FILE *fp)
{
	if (fp)
		vf_open_streams--;
	return fclose(fp);
}
