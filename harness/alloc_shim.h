/* Force-included (-include) into the library's own translation units only.
 * Maps the allocation / stream-open entry points to counting wrappers so the
 * driver can read "live blocks" and "open streams" after every public call,
 * and (VF_SITE == 1, i.e. confuse.c) lets the k-th request fail on demand.
 * Nothing in /repo is touched.                                              */
#ifndef VF_ALLOC_SHIM_H
#define VF_ALLOC_SHIM_H
#include <stdlib.h>
#include <string.h>
#include <stdio.h>

#ifndef VF_SITE
#define VF_SITE 0
#endif

void *vf_malloc(size_t n, int site, const char *fn);
void *vf_calloc(size_t a, size_t b, int site, const char *fn);
void *vf_realloc(void *p, size_t n, int site, const char *fn);
void *vf_reallocarray(void *p, size_t a, size_t b, int site, const char *fn);
char *vf_strdup(const char *s, int site, const char *fn);
char *vf_strndup(const char *s, size_t n, int site, const char *fn);
void  vf_free(void *p);
FILE *vf_fopen(const char *path, const char *mode);
FILE *vf_fmemopen(void *buf, size_t n, const char *mode);
int   vf_fclose(FILE *fp);

#ifndef VF_SHIM_IMPL
#define malloc(n)            vf_malloc((n), VF_SITE, __func__)
#define calloc(a, b)         vf_calloc((a), (b), VF_SITE, __func__)
#define realloc(p, n)        vf_realloc((p), (n), VF_SITE, __func__)
#define reallocarray(p, a, b) vf_reallocarray((p), (a), (b), VF_SITE, __func__)
#undef strdup
#undef strndup
#define strdup(s)            vf_strdup((s), VF_SITE, __func__)
#define strndup(s, n)        vf_strndup((s), (n), VF_SITE, __func__)
#define free(p)              vf_free(p)
#define fopen(p, m)          vf_fopen((p), (m))
#define fmemopen(b, n, m)    vf_fmemopen((b), (n), (m))
#define fclose(f)            vf_fclose(f)
#endif
#endif
