------------------------------ MODULE MC_Path -------------------------------
(***************************************************************************)
(* Every path string up to a length bound over the path alphabet, plus the *)
(* paths enumerated from the tree (every option x every qualifier form)    *)
(* and their systematically broken variants, resolved against a fixed      *)
(* four-level tree (C11).                                                  *)
(***************************************************************************)
EXTENDS PathRes, Json

CONSTANTS MaxLen, Mode

VARIABLES path, structured
vars == <<path, structured>>

(* names: s = 115, m = 109, t = 116, c = 99 ; titles: a = 97, b = 98, "a'b", "1", "m" *)
Leaf(v)   == POpt(<<115>>, "str", {}, <<v>>)
TSec(ins) == POpt(<<116>>, "sec", {"MULTI", "TITLE"}, ins)
MSec(ins) == POpt(<<109>>, "sec", {"MULTI"}, ins)
CSec(ins) == POpt(<<99>>,  "sec", {}, ins)
(* a titled section that is not a multi section (no default instance: its only instance comes from the text, with a title) *)
BSec(ins) == POpt(<<98>>,  "sec", {"TITLE", "NODEFAULT"}, ins)

Tree ==
  PSec(NoTitle,
    << Leaf(<<114>>),
       MSec(<< PSec(NoTitle, << Leaf(<<48>>), TSec(<< PSec(<<97>>, <<Leaf(<<49>>)>>), PSec(<<98>>, <<Leaf(<<50>>)>>) >>) >>),
               PSec(NoTitle, << Leaf(<<51>>), TSec(<< PSec(<<97>>, <<Leaf(<<52>>)>>) >>) >>) >>),
       TSec(<< PSec(<<97>>, <<Leaf(<<53>>)>>), PSec(<<97, 39, 98>>, <<Leaf(<<54>>)>>),
               PSec(<<49>>, <<Leaf(<<55>>)>>), PSec(<<109>>, <<Leaf(<<56>>)>>), PSec(<<97, 92>>, <<Leaf(<<57>>)>>),
               PSec(<<97, 61, 98>>, <<Leaf(<<58>>)>>) >>),        \* a title containing '=': "a=b"
       CSec(<< PSec(NoTitle, << Leaf(<<120>>), MSec(<< PSec(NoTitle, <<Leaf(<<121>>)>>) >>) >>) >>),
       BSec(<< PSec(<<97>>, <<Leaf(<<59>>)>>) >>) >>)

AlphaSet == {115, 109, 116, 99, cBar, cEq, cQ, cBsl, 48, 49, 57, 97, 98}

(* ---- paths enumerated from the tree ---- *)
QuoteTitle(t) ==
  LET F[i \in 0..Len(t)] == IF i = 0 THEN <<>> ELSE F[i-1] \o (IF t[i] \in {cQ, cBsl} THEN <<cBsl, t[i]>> ELSE <<t[i]>>)
  IN <<cQ>> \o F[Len(t)] \o <<cQ>>
Digit(n) == <<48 + n>>

RECURSIVE PathsTo(_, _)
(* set of [p: path bytes reaching section sec, ...] : returns set of byte sequences for options & sections below sec *)
StepForms(o, j) ==
  (IF j = 1 THEN {o.name} ELSE {}) \cup
  (IF "MULTI" \in o.flags
     THEN (IF "TITLE" \in o.flags
             THEN {o.name \o <<cEq>> \o QuoteTitle(o.vals[j].title)} \cup
                  (IF \A c \in {o.vals[j].title[k] : k \in 1..Len(o.vals[j].title)} : c \notin {cBar, cQ}
                     THEN {o.name \o <<cEq>> \o o.vals[j].title} ELSE {})
             ELSE {o.name \o <<cEq>> \o Digit(j - 1)})
     ELSE {})
PathsTo(sec, prefix) ==
  UNION { IF sec.opts[i].type # "sec" THEN {prefix \o sec.opts[i].name}
          ELSE {prefix \o sec.opts[i].name} \cup
               UNION { UNION { {prefix \o f} \cup PathsTo(sec.opts[i].vals[j], prefix \o f \o <<cBar>>)
                               : f \in StepForms(sec.opts[i], j) }
                       : j \in 1..Len(sec.opts[i].vals) }
          : i \in 1..Len(sec.opts) }

Good == PathsTo(Tree, <<>>)

(* systematic breakages of a path *)
DropAt(p, k) == SubSeq(p, 1, k - 1) \o SubSeq(p, k + 1, Len(p))
DupAt(p, k)  == SubSeq(p, 1, k) \o SubSeq(p, k, Len(p))
(* the qualifier after the '=' at position k removed (up to the next '|' or the end) *)
EmptyQual(p, k) == LET e == Cspn(p, k + 1, {cBar}) IN SubSeq(p, 1, k) \o SubSeq(p, e, Len(p))
JunkQual(p, k)  == LET e == Cspn(p, k + 1, {cBar}) IN SubSeq(p, 1, e - 1) \o <<120>> \o SubSeq(p, e, Len(p))
(* a backslash put in front of an ordinary character inside a quoted qualifier (only \' and \\ are escapes) *)
BslAt(p, k) == SubSeq(p, 1, k) \o <<cBsl>> \o SubSeq(p, k + 1, Len(p))
Broken(p) ==
  {BslAt(p, k) : k \in {k \in 2..(Len(p) - 1) : p[k] = cQ /\ p[k-1] = cEq /\ p[k+1] \notin {cQ, cBsl}}} \cup
  {BslAt(p, k + 1) : k \in {k \in 2..(Len(p) - 2) : p[k] = cQ /\ p[k-1] = cEq /\ p[k+1] \notin {cQ, cBsl} /\ p[k+2] \notin {cQ, cBsl}}} \cup
  {EmptyQual(p, k) : k \in {k \in 1..Len(p) : p[k] = cEq}} \cup
  {JunkQual(p, k) : k \in {k \in 1..Len(p) : p[k] = cEq}} \cup
  {DropAt(p, k) : k \in {k \in 1..Len(p) : p[k] \in {cBar, cEq, cQ, cBsl}}} \cup
  {DupAt(p, k)  : k \in {k \in 1..Len(p) : p[k] \in {cEq, cQ}}} \cup
  {<<cBar>> \o p, p \o <<cBar>>, <<cEq>> \o p, p \o <<cEq>>, p \o <<cEq, 57>>, p \o <<cEq, 97>>,
   p \o <<cEq, cQ, cQ>>, p \o <<cEq, cQ>>, p \o <<cBar, 122>>,
   p \o <<cEq, 52,50,57,52,57,54,55,50,57,54>>, p \o <<cEq, 52,50,57,52,57,54,55,50,57,55>>,     \* 2^32, 2^32 + 1
   p \o <<cEq, 45, 49>>}

Init ==
  \/ /\ Mode = "enum"  /\ path = <<>> /\ structured = FALSE
  \/ /\ Mode = "tree"  /\ path \in Good \cup UNION {Broken(p) : p \in Good} /\ structured = TRUE
Next == /\ ~structured /\ Len(path) < MaxLen
        /\ \E b \in AlphaSet : path' = Append(path, b)
        /\ UNCHANGED structured
Spec == Init /\ [][Next]_vars

OpO == OpResolve(Tree, path, FALSE)
OpS == OpResolve(Tree, path, TRUE)
RfO == RefResolve(Tree, path, FALSE)
RfS == RefResolve(Tree, path, TRUE)

(* C11: by-path lookup = stepwise navigation, for option and section addressing *)
P_C11_Agree ==
  /\ (RfO.kind = "unspec" \/ OpO.kind = "unspec" \/ OpO = RfO)
  /\ (RfS.kind = "unspec" \/ OpS.kind = "unspec" \/ OpS = RfS)

(* every path enumerated from the tree resolves to where it was generated for *)
P_C11_GoodResolve == (structured /\ path \in Good) => (RfO.kind = "opt" \/ RfS.kind = "sec")

(* an unqualified step into a multi section means its first instance *)
P_C11_FirstInstance ==
  (RfO.kind = "opt" /\ \A k \in 1..Len(path) : path[k] # cEq) => \A j \in 1..Len(RfO.loc) : RfO.loc[j].ii = 1

Emit == PrintT(<<"BEH", ToJson([path |-> path, opt |-> RfO, sec |-> RfS])>>)
ASSUME PrintT(<<"TREE", ToJson(Tree)>>)
=============================================================================
