------------------------------- MODULE Parser -------------------------------
(***************************************************************************)
(* Token-level model of cfg_parse_internal (confuse.c) as a pure step      *)
(* function PStep(ps, tok).  Same states 0..9 as the implementation; the   *)
(* C recursion for nested sections is an explicit frame stack; the discard *)
(* sub-parser for undeclared items (CFGF_IGNORE_UNKNOWN) is specified from *)
(* the grammar of well-formed unknown items (states 10..19, a counter      *)
(* instead of recursion).                                                  *)
(*                                                                         *)
(* The model is written to the properties (reference meaning): where the   *)
(* pinned implementation deviated, DESIGN.md section 6 lists the deviation *)
(* and the "fix:" commit that repaired it.                                 *)
(***************************************************************************)
EXTENDS Store

(* tokens: k \in {"str","=","+=","{","}","(",")",",","cmt","eof"}          *)
(*   v    decoded text (names, values, titles, comment text)               *)
(*   nl   newlines between the previous token and this one                 *)
(*   nlin newlines inside the token (multi-line strings and comments)      *)
Tk(k, v, nl)      == [k |-> k, v |-> v, nl |-> nl, nlin |-> 0]
TkStr(v)          == Tk("str", v, 0)
TkP(k)            == Tk(k, "", 0)
TkEof             == Tk("eof", "", 0)

(* per-parse configuration: context flags and which callback invocation fails *)
ParseCfg(nocase, comments, ignore, fp, fv, ff) ==
  [nocase |-> nocase, comments |-> comments, ignore |-> ignore,
   failParse |-> fp, failValid |-> fv, failFunc |-> ff]
PlainCfg == ParseCfg(FALSE, FALSE, FALSE, 0, 0, 0)

Frame(sec, ret, kv) ==
  [sec |-> sec, st |-> 0, oi |-> 0, nvals |-> 0,
   cmt |-> Null, stale |-> FALSE, title |-> Null, fargs |-> <<>>,
   ret |-> ret, kv |-> kv, sk |-> 0]

(* parser state; counters cn/vn/fn continue across calls on one context    *)
PInit(root, pc, file, kvroot, cn, vn, fn) ==
  [stack |-> <<Frame(root, [oi |-> 0, ii |-> 0], kvroot)>>,
   status |-> "more", pc |-> pc, file |-> file, line |-> 1,
   diags |-> <<>>, depr |-> FALSE, ndep |-> 0, cblog |-> <<>>, freed |-> <<>>,
   cn |-> cn, vn |-> vn, fn |-> fn,
   (* include files: fs maps a name to [kind |-> "file" | "dir", toks |-> tokens of the file]; *)
   (* inc is the stack of saved (file, line) of the including sources; incq a pending request  *)
   fs |-> <<>>, inc |-> <<>>, incq |-> [on |-> FALSE, name |-> ""],
   (* re-entrant use: a function callback ("eval") parses a named text (fs entry of kind "text") *)
   (* into an auxiliary context while this parse is running; aux = <<root of that context>> or   *)
   (* <<>>; auxlog records the outcome of each nested parse; evq is a pending request            *)
   aux |-> <<>>, auxlog |-> <<>>, evq |-> [on |-> FALSE, name |-> "", self |-> FALSE]]

Top(ps)        == ps.stack[Len(ps.stack)]
SetTop(ps, f)  == [ps EXCEPT !.stack[Len(ps.stack)] = f]
CurOpt(f)      == f.sec.opts[f.oi]
SetOpt(f, o)   == [f EXCEPT !.sec.opts[f.oi] = o]

FailD(ps) == [ps EXCEPT !.status = "fail",
                        !.diags = Append(@, [file |-> ps.file, line |-> ps.line])]
Unspec(ps) == [ps EXCEPT !.status = "unspec"]

(* the root section with every open frame written back into its parent:    *)
(* sections are attached to their parent when they are opened, so this is  *)
(* what the getters show when a parse stops at this point                  *)
RECURSIVE Collapse(_)
Collapse(stack) ==
  IF Len(stack) = 1 THEN stack[1].sec
  ELSE LET n == Len(stack)
           c == stack[n]
           p == [stack[n-1] EXCEPT !.sec.opts[c.ret.oi].vals[c.ret.ii] = c.sec]
       IN Collapse(Append(SubSeq(stack, 1, n-2), p))
RootOf(ps) == Collapse(ps.stack)

(* user pointers released when values are dropped, in cfg_free order       *)
RECURSIVE PtrsOfSec(_), PtrsOfSecs(_), PtrsOfOpts(_)
PtrsOfOpt(o) == IF o.type = "ptr" THEN o.vals
                ELSE IF o.type = "sec" THEN PtrsOfSecs(o.vals) ELSE <<>>
PtrsOfOpts(opts) == IF opts = <<>> THEN <<>> ELSE PtrsOfOpt(Head(opts)) \o PtrsOfOpts(Tail(opts))
PtrsOfSec(s) == PtrsOfOpts(s.opts)
PtrsOfSecs(ss) == IF ss = <<>> THEN <<>> ELSE PtrsOfSec(Head(ss)) \o PtrsOfSecs(Tail(ss))

(* ------------------------------------------------------------------ *)
(* cfg_setopt on a non-section option from token text: conversion      *)
(* (through the value-parsing callback when one is declared) happens   *)
(* BEFORE the store is touched; a refused text leaves the option as is *)
(* ------------------------------------------------------------------ *)
SetFromText(ps, f, text) ==
  LET o     == CurOpt(f)
      hasCb == "parse" \in o.cb
      cn1   == IF hasCb THEN ps.cn + 1 ELSE ps.cn
      cbBad == hasCb /\ ps.pc.failParse = cn1
      v     == IF hasCb THEN (IF cbBad THEN Bad ELSE CbValue(o.type, text, cn1))
               ELSE Conv(o.type, text)
      (* a plain string option takes any text (which may be a byte sequence in the
         byte-level models: never compared with the Bad marker) *)
      isBad == IF hasCb THEN cbBad ELSE (o.type # "str" /\ v = Bad)
      log1  == IF hasCb THEN Append(ps.cblog, [k |-> "parse", o |-> o.name, v |-> text, vals |-> <<>>])
               ELSE ps.cblog
      (* pointers the store lets go of: dropped pristine defaults, or the overwritten scalar *)
      gone  == IF o.type # "ptr" THEN <<>>
               ELSE IF o.reset THEN o.vals
               ELSE IF ~IsList(o) /\ o.vals # <<>> THEN <<o.vals[1]>> ELSE <<>>
      ps1   == [ps EXCEPT !.cn = cn1, !.cblog = log1]
  IN IF isBad THEN [ok |-> FALSE, ps |-> FailD(ps1), f |-> f]
     ELSE [ok |-> TRUE,
           ps |-> [ps1 EXCEPT !.freed = @ \o gone],
           f  |-> SetOpt(f, StoreValue(o, v))]

(* validation callback of the current option, after a store *)
RunValid(ps, f) ==
  LET o == CurOpt(f)
  IN IF "valid" \notin o.cb THEN [ok |-> TRUE, ps |-> ps]
     ELSE LET vn1 == ps.vn + 1
              ps1 == [ps EXCEPT !.vn = vn1,
                                !.cblog = Append(@, [k |-> "valid", o |-> o.name, v |-> "",
                                                     vals |-> ObsOpt(o).v])]
          IN IF ps.pc.failValid = vn1 THEN [ok |-> FALSE, ps |-> FailD(ps1)]
             ELSE [ok |-> TRUE, ps |-> ps1]

(* cfg_handle_deprecated: runs when the parser is back at "expecting a     *)
(* name" after an item of a deprecated option; one or more diagnostics     *)
HandleDeprecated(ps, f) ==
  IF f.oi = 0 \/ "DEPRECATED" \notin CurOpt(f).flags THEN [ps |-> ps, f |-> f]
  ELSE LET o == CurOpt(f)
       IN [ps |-> [ps EXCEPT !.depr = TRUE, !.ndep = @ + 1,      \* one notice per visit
                             !.freed = @ \o (IF "DROP" \in o.flags THEN PtrsOfOpt(o) ELSE <<>>)],
           f  |-> [(IF "DROP" \in o.flags THEN SetOpt(f, FreeValue(o)) ELSE f) EXCEPT !.oi = 0]]

(* cfg_setopt for a section option: which instance does the body go into *)
OpenSection(ps, f) ==
  LET o     == CurOpt(f)
      t     == f.title
      hit   == IF "TITLE" \in o.flags /\ (o.vals = <<>> \/ IsMulti(o))
                 THEN FindTitle(o.vals, t, ps.pc.nocase) ELSE 0
      fresh == MkSec(t, InitOpts(o.sub))
  IN IF hit # 0 /\ "NO_TITLE_DUPES" \in o.flags
       THEN [ok |-> FALSE, ps |-> FailD(ps), f |-> f, ii |-> 0]
     ELSE IF o.vals = <<>> \/ IsMulti(o)
       THEN IF hit # 0
              THEN (* same title: the old instance is released and replaced in place *)
                   [ok |-> TRUE,
                    ps |-> [ps EXCEPT !.freed = @ \o PtrsOfSec(o.vals[hit])],
                    f  |-> SetOpt(f, [o EXCEPT !.vals[hit] = fresh, !.mod = TRUE]),
                    ii |-> hit]
              ELSE [ok |-> TRUE, ps |-> ps,
                    f  |-> SetOpt(f, [o EXCEPT !.vals = Append(@, fresh), !.mod = TRUE]),
                    ii |-> Len(o.vals) + 1]
     ELSE (* single section, already there: merged *)
          [ok |-> TRUE, ps |-> ps, f |-> SetOpt(f, [o EXCEPT !.mod = TRUE]), ii |-> 1]

(* the name an item starts with, in "expecting an option name" *)
StartItem(ps, f, name) ==
  LET idx == FindOpt(f.sec.opts, name, ps.pc.nocase)
  IN IF idx = 0
       THEN IF ps.pc.ignore THEN SetTop(ps, [f EXCEPT !.oi = 0, !.st = 10, !.cmt = Null])
            ELSE IF f.kv
              THEN (* free-form key=value section: the key is created on the fly *)
                   LET key == FreeKey(name)
                       n   == Len(f.sec.opts) + 1
                   IN SetTop(ps, [f EXCEPT !.sec.opts = Append(@, key), !.oi = n, !.st = 1])
            ELSE FailD(SetTop(ps, f))
     ELSE LET o == f.sec.opts[idx]
              st == IF o.type = "sec" THEN (IF "TITLE" \in o.flags THEN 6 ELSE 5)
                    ELSE IF o.type = "func" THEN 7 ELSE 1
          IN SetTop(ps, [f EXCEPT !.oi = idx, !.st = st])

(* an item that carries no annotation has been completed: a still pending  *)
(* comment is no longer "immediately before" whatever comes next           *)
ItemDone(f) == [f EXCEPT !.st = 0, !.stale = (f.cmt # Null)]

(* the built-in include function: exactly one argument; the scanner switches to the file *)
CallInclude(ps, f) ==
  IF Len(f.fargs) # 1 THEN FailD(ps)
  ELSE [SetTop(ps, ItemDone([f EXCEPT !.fargs = <<>>])) EXCEPT !.incq = [on |-> TRUE, name |-> f.fargs[1]]]

CallFunction(ps, f) ==
  IF CurOpt(f).fn = "include" THEN CallInclude(ps, f) ELSE
  LET o   == CurOpt(f)
      fn1 == ps.fn + 1
      ps1 == [ps EXCEPT !.fn = fn1,
                        !.cblog = Append(@, [k |-> "func", o |-> o.name, v |-> "", vals |-> f.fargs])]
      f1  == ItemDone([f EXCEPT !.fargs = <<>>])
  IN IF ps.pc.failFunc = fn1 THEN FailD(ps1)
     ELSE IF o.fn = "evalself"
       THEN (* the callback parses the named text into the very context that is being parsed; only *)
            (* modelled for a call at the top level of the context (possibly inside included files) *)
            IF Len(f.fargs) # 1 \/ Len(ps.stack) # 1 \/ f.fargs[1] \notin DOMAIN ps.fs THEN Unspec(ps1)
            ELSE IF ps.fs[f.fargs[1]].kind # "text" THEN Unspec(ps1)
            ELSE [SetTop(ps1, f1) EXCEPT !.evq = [on |-> TRUE, name |-> f.fargs[1], self |-> TRUE]]
     ELSE IF o.fn = "eval"
       THEN (* the callback parses the named text into the auxiliary context and returns 0    *)
            (* whatever that parse returned; other uses are outside the model                *)
            IF Len(f.fargs) # 1 \/ ps.aux = <<>> \/ f.fargs[1] \notin DOMAIN ps.fs THEN Unspec(ps1)
            ELSE IF ps.fs[f.fargs[1]].kind # "text" THEN Unspec(ps1)
            ELSE [SetTop(ps1, f1) EXCEPT !.evq = [on |-> TRUE, name |-> f.fargs[1], self |-> FALSE]]
     ELSE SetTop(ps1, f1)

(* ------------------------------------------------------------------ *)
(* discard sub-parser for undeclared items                             *)
(* ------------------------------------------------------------------ *)
SkipDone(f) == [f EXCEPT !.st = IF f.sk > 0 THEN 16 ELSE 0]
SkipStep(ps, f, t) ==
  LET k == t.k
  IN CASE f.st = 10 ->
            IF k \in {"=", "+="} THEN SetTop(ps, [f EXCEPT !.st = 14])
            ELSE IF k = "(" THEN SetTop(ps, [f EXCEPT !.st = 17])
            ELSE IF k = "{" THEN SetTop(ps, [f EXCEPT !.st = 16, !.sk = @ + 1])
            ELSE IF k = "str" THEN SetTop(ps, [f EXCEPT !.st = 11])
            ELSE Unspec(ps)
       [] f.st = 11 ->
            IF k = "{" THEN SetTop(ps, [f EXCEPT !.st = 16, !.sk = @ + 1]) ELSE Unspec(ps)
       [] f.st = 14 ->
            IF k = "str" THEN SetTop(ps, SkipDone(f))
            ELSE IF k = "{" THEN SetTop(ps, [f EXCEPT !.st = 15])
            ELSE Unspec(ps)
       [] f.st = 15 ->
            IF k = "str" THEN SetTop(ps, [f EXCEPT !.st = 18])
            ELSE IF k = "}" THEN SetTop(ps, SkipDone(f))
            ELSE Unspec(ps)
       [] f.st = 18 ->
            IF k = "," THEN SetTop(ps, [f EXCEPT !.st = 15])
            ELSE IF k = "}" THEN SetTop(ps, SkipDone(f))
            ELSE Unspec(ps)
       [] f.st = 17 ->
            IF k = "str" THEN SetTop(ps, [f EXCEPT !.st = 19])
            ELSE IF k = ")" THEN SetTop(ps, SkipDone(f))
            ELSE Unspec(ps)
       [] f.st = 19 ->
            IF k = "," THEN SetTop(ps, [f EXCEPT !.st = 17])
            ELSE IF k = ")" THEN SetTop(ps, SkipDone(f))
            ELSE Unspec(ps)
       [] f.st = 16 ->
            IF k = "str" THEN SetTop(ps, [f EXCEPT !.st = 10])
            ELSE IF k = "}" THEN SetTop(ps, SkipDone([f EXCEPT !.sk = @ - 1]))
            ELSE Unspec(ps)
       [] OTHER -> Unspec(ps)

(* ------------------------------------------------------------------ *)
(* one token                                                           *)
(* ------------------------------------------------------------------ *)
PStepCore(ps, t) ==
  LET f == Top(ps)
      k == t.k
  IN
  IF k = "cmt" THEN
       (* comments are transparent everywhere; with annotation support the  *)
       (* text is remembered while a name is expected                      *)
       IF f.st = 0
         THEN (* the deprecated option stays the "current" one across a comment: the notice *)
              (* is given again when the next token is looked at                           *)
              LET h  == HandleDeprecated(ps, f)
                  hf == [h.f EXCEPT !.oi = f.oi]
              IN IF ps.pc.comments
                   THEN SetTop(h.ps, [hf EXCEPT !.cmt = t.v, !.stale = FALSE])
                   ELSE SetTop(h.ps, hf)
         ELSE ps
  ELSE IF k = "eof" THEN
       IF f.st # 0 \/ Len(ps.stack) > 1 THEN FailD(ps)
       ELSE LET h == HandleDeprecated(ps, f)
            IN [SetTop(h.ps, h.f) EXCEPT !.status = "ok"]
  ELSE IF f.st >= 10 THEN SkipStep(ps, f, t)
  ELSE CASE f.st = 0 ->
         LET h == HandleDeprecated(ps, f)
         IN IF k = "}" THEN
               IF Len(ps.stack) = 1 THEN FailD(SetTop(h.ps, h.f))      \* (a dropped option is dropped first)
               ELSE LET n   == Len(ps.stack)
                        c   == h.f
                        p0  == ps.stack[n-1]
                        p1  == [p0 EXCEPT !.sec.opts[c.ret.oi].vals[c.ret.ii] = c.sec]
                        ps1 == [h.ps EXCEPT !.stack = Append(SubSeq(ps.stack, 1, n-2), p1)]
                        rv  == RunValid(ps1, p1)
                    IN IF rv.ok THEN SetTop(rv.ps, ItemDone(p1)) ELSE rv.ps
            ELSE IF k = "str" THEN StartItem(h.ps, h.f, t.v)
            ELSE FailD(SetTop(h.ps, h.f))
    [] f.st = 1 ->
         LET o == CurOpt(f)
         IN IF k = "+=" THEN
               IF ~IsList(o) THEN FailD(ps)
               ELSE SetTop(ps, [SetOpt(f, [o EXCEPT !.reset = FALSE, !.mod = TRUE])
                                  EXCEPT !.st = 3, !.nvals = 0])
            ELSE IF k = "=" THEN
               SetTop(ps, [SetOpt(f, [o EXCEPT !.reset = TRUE, !.mod = TRUE])
                             EXCEPT !.st = IF IsList(o) THEN 3 ELSE 2, !.nvals = 0])
            ELSE FailD(ps)
    [] f.st = 2 ->
         LET o == CurOpt(f)
         IN IF k = "}" /\ IsList(o) THEN
               (* "l = {}" empties the list *)
               LET o1 == IF f.nvals = 0 /\ o.reset THEN FreeValue(o) ELSE o
                   gone == IF f.nvals = 0 /\ o.reset THEN PtrsOfOpt(o) ELSE <<>>
               IN SetTop([ps EXCEPT !.freed = @ \o gone], ItemDone(SetOpt(f, o1)))
            ELSE IF k # "str" THEN FailD(ps)
            ELSE LET r == SetFromText(ps, f, t.v)
                 IN IF ~r.ok THEN r.ps
                    ELSE LET rv == RunValid(r.ps, r.f)
                         IN IF ~rv.ok THEN SetTop(rv.ps, r.f)
                            ELSE LET o2 == CurOpt(r.f)
                                     o3 == IF f.cmt # Null
                                             THEN [o2 EXCEPT !.cmt = IF f.stale THEN AnyV ELSE f.cmt,
                                                             !.mod = TRUE]
                                             ELSE o2
                                     f3 == [SetOpt(r.f, o3) EXCEPT !.cmt = Null, !.stale = FALSE]
                                 IN IF IsList(o)
                                      THEN SetTop(rv.ps, [f3 EXCEPT !.st = 4, !.nvals = @ + 1])
                                      ELSE SetTop(rv.ps, [f3 EXCEPT !.st = 0])
    [] f.st = 3 ->
         IF k = "{" THEN SetTop(ps, [f EXCEPT !.st = 2])
         ELSE IF k # "str" THEN FailD(ps)
         ELSE LET r == SetFromText(ps, f, t.v)
              IN IF ~r.ok THEN r.ps
                 ELSE LET rv == RunValid(r.ps, r.f)
                      IN IF ~rv.ok THEN SetTop(rv.ps, r.f)
                         ELSE SetTop(rv.ps, ItemDone(r.f))
    [] f.st = 4 ->
         IF k = "," THEN SetTop(ps, [f EXCEPT !.st = 2])
         ELSE IF k = "}" THEN
              LET rv == RunValid(ps, f)
              IN IF rv.ok THEN SetTop(rv.ps, [f EXCEPT !.st = 0]) ELSE rv.ps
         ELSE FailD(ps)
    [] f.st = 5 ->
         IF k # "{" THEN FailD(ps)
         ELSE LET r == OpenSection(ps, f)
              IN IF ~r.ok THEN r.ps
                 ELSE LET o   == CurOpt(r.f)
                          p   == [r.f EXCEPT !.title = Null]
                          c   == Frame(o.vals[r.ii], [oi |-> f.oi, ii |-> r.ii],
                                       f.kv \/ "KEYSTRVAL" \in o.flags)
                      IN [SetTop(r.ps, p) EXCEPT !.stack = Append(@, c)]
    [] f.st = 6 ->
         IF k = "str" THEN SetTop(ps, [f EXCEPT !.title = t.v, !.st = 5]) ELSE FailD(ps)
    [] f.st = 7 ->
         IF k = "(" THEN SetTop(ps, [f EXCEPT !.st = 8]) ELSE FailD(ps)
    [] f.st = 8 ->
         IF k = ")" THEN CallFunction(ps, f)
         ELSE IF k = "str" THEN SetTop(ps, [f EXCEPT !.fargs = Append(@, t.v), !.st = 9])
         ELSE FailD(ps)
    [] f.st = 9 ->
         IF k = ")" THEN CallFunction(ps, f)
         ELSE IF k = "," THEN SetTop(ps, [f EXCEPT !.st = 8])
         ELSE FailD(ps)
    [] OTHER -> Unspec(ps)

(* newlines are counted before the token is looked at: a diagnostic names  *)
(* the line on which the offending token ends                              *)
PStep(ps, t) ==
  IF ps.status # "more" THEN ps
  ELSE PStepCore([ps EXCEPT !.line = @ + t.nl + t.nlin], t)

(* ------------------------------------------------------------------ *)
(* include files (lexer.l: cfg_lexer_include, the <<EOF>> rule):       *)
(* the included tokens are read in place, with the file name and line   *)
(* of the including source saved and restored; at most MaxIncludeDepth  *)
(* files are open at a time; a failure anywhere aborts the whole parse  *)
(* ------------------------------------------------------------------ *)
MaxIncludeDepth == 10

RECURSIVE PRun(_, _), PStepI(_, _), EnterEval(_, _), EnterEvalSelf(_, _)
EnterInclude(p, name) ==
  IF Len(p.inc) >= MaxIncludeDepth THEN FailD(p)                       \* includes nested too deeply
  ELSE IF name \notin DOMAIN p.fs THEN FailD(p)                        \* missing / not found in the search path
  ELSE IF p.fs[name].kind # "file" THEN FailD(p)                       \* a directory
  ELSE LET saved == [file |-> p.file, line |-> p.line]
           p2 == [p EXCEPT !.inc = Append(@, saved), !.file = name, !.line = 1]
           p3 == PRun(p2, p.fs[name].toks)
       IN IF p3.status # "more" THEN p3                                \* rejected inside the file
          ELSE [p3 EXCEPT !.file = saved.file, !.line = saved.line, !.inc = SubSeq(@, 1, Len(@) - 1)]

(* a parse started from inside a callback: its own file name and line numbering, the      *)
(* callback counters of the process, and the include depth reached so far as its base;     *)
(* whatever happens in it - also a failure inside an include of its own - the interrupted  *)
(* parse goes on where it was, with its include levels still open                          *)
EnterEval(p, name) ==
  LET q0 == [PInit(p.aux[1], p.pc, "buf", FALSE, p.cn, p.vn, p.fn) EXCEPT !.fs = p.fs, !.inc = p.inc]
      q  == PRun(q0, p.fs[name].toks)
  IN IF q.status \notin {"ok", "fail"} THEN Unspec(p)
     ELSE [p EXCEPT !.aux = <<RootOf(q)>>,
                    !.auxlog = Append(@, [status |-> q.status, ndiag |-> Len(q.diags) + q.ndep]),
                    !.cn = q.cn, !.vn = q.vn, !.fn = q.fn,
                    !.cblog = @ \o q.cblog, !.freed = @ \o q.freed]

(* the same into the context itself: the nested parse works on the root section (the only open frame), names the  *)
(* context "[buf]" and restarts its line counter - the interrupted source's name comes back when an enclosing       *)
(* include returns; positions reported in between are whatever the nested parse left (not fixed by the properties) *)
EnterEvalSelf(p, name) ==
  LET q0 == [PInit(p.stack[1].sec, p.pc, "buf", p.stack[1].kv, p.cn, p.vn, p.fn) EXCEPT !.fs = p.fs, !.inc = p.inc]
      q  == PRun(q0, p.fs[name].toks)
  IN IF q.status \notin {"ok", "fail"} THEN Unspec(p)
     ELSE [p EXCEPT !.stack[1].sec = RootOf(q),
                    !.auxlog = Append(@, [status |-> q.status, ndiag |-> Len(q.diags) + q.ndep]),
                    !.cn = q.cn, !.vn = q.vn, !.fn = q.fn,
                    !.cblog = @ \o q.cblog, !.freed = @ \o q.freed,
                    !.file = "buf", !.line = q.line]

PStepI(ps, t) ==
  LET p1 == PStep(ps, t)
  IN IF p1.status = "more" /\ p1.incq.on
       THEN EnterInclude([p1 EXCEPT !.incq = [on |-> FALSE, name |-> ""]], p1.incq.name)
     ELSE IF p1.status = "more" /\ p1.evq.on /\ p1.evq.self
       THEN EnterEvalSelf([p1 EXCEPT !.evq = [on |-> FALSE, name |-> "", self |-> FALSE]], p1.evq.name)
     ELSE IF p1.status = "more" /\ p1.evq.on
       THEN EnterEval([p1 EXCEPT !.evq = [on |-> FALSE, name |-> "", self |-> FALSE]], p1.evq.name)
       ELSE p1

PRun(ps, toks) == IF toks = <<>> THEN ps ELSE PRun(PStepI(ps, Head(toks)), Tail(toks))

WithFs(ps, fs) == [ps EXCEPT !.fs = fs]

=============================================================================
