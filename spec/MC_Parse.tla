------------------------------ MODULE MC_Parse ------------------------------
(***************************************************************************)
(* Exhaustive exploration of token orders for the parser model.            *)
(* TLC - not a hand-written generator - chooses every next token; each     *)
(* finished parse is one behaviour that the conformance harness replays     *)
(* into the real library (leg A).  Checked here (leg S): the state machine *)
(* agrees with the reference meaning of the language (C01), rejected input *)
(* is reported (C06), comments are transparent (C15), undeclared items are *)
(* transparent under ignore-unknown (C12), callbacks see what the text     *)
(* says (C14), released pointers balance (C07).                            *)
(***************************************************************************)
EXTENDS Parser, Lang, Json

CONSTANTS MaxLen,      \* tokens per text (without the end of input)
          MaxParses,   \* texts parsed one after the other into the same context
          Sids,        \* which schemas
          Mode         \* "plain" | "comments" | "ignore" | "callbacks"

VARIABLES sid, pcfg, root0, done, hist, ps

vars == <<sid, pcfg, root0, done, hist, ps>>

(* ------------------------------------------------------------------ *)
(* schemas                                                             *)
(* ------------------------------------------------------------------ *)
Schema(s) ==
  CASE s = 1 -> (* flat: scalars and lists of every kind *)
         << DInt("i", "7"), DStr("s", "d"), DIntList("l", <<"1","2">>),
            DStrList("sl", <<>>), DBool("b", "false"), DFloat("f", "1.5") >>
    [] s = 2 -> (* sections: single, multi, titled multi *)
         << DInt("i", "7"),
            DSec("sec", {}, << DInt("x", "5"), DIntList("l", <<"1">>) >>),
            DSec("m", {"MULTI"}, << DInt("x", "5") >>),
            DSec("t", {"MULTI","TITLE"}, << DInt("x", "5"), DStr("s", Null) >>) >>
    [] s = 3 -> (* unique titles, free-form section, deprecated/drop, no-default *)
         << DSec("u", {"MULTI","TITLE","NO_TITLE_DUPES"}, << DInt("x", "5") >>),
            DSec("kv", {"KEYSTRVAL"}, <<>>),
            WithFlags(DInt("dep", "1"), {"DEPRECATED"}),
            WithFlags(DIntList("drop", <<>>), {"DEPRECATED","DROP"}),
            WithFlags(DInt("nd", "0"), {"NODEFAULT"}),
            WithFlags(DStrList("ndl", <<"q">>), {"NODEFAULT"}) >>
    [] s = 4 -> (* three levels, function *)
         << DSec("a", {}, << DSec("b", {"MULTI","TITLE"},
                                  << DSec("c", {}, << DInt("x", "5") >>), DInt("y", "1") >>),
                             DInt("z", "2") >>),
            DFunc("fn", "user"),
            DStr("s", "d") >>
    [] s = 5 -> (* callbacks on a scalar, a list, a section, a function; pointers *)
         << WithCb(DInt("i", "7"), {"parse", "valid"}),
            WithCb(DStrList("sl", <<>>), {"parse", "valid"}),
            WithCb(DSec("m", {"MULTI"}, << WithCb(DInt("x", "5"), {"valid"}) >>), {"valid"}),
            DFunc("fn", "user"),
            DPtr("p"), DPtrList("pl") >>
    [] s = 6 -> (* case-insensitive names *)
         << DInt("i", "7"), DStrList("SL", <<"d">>),
            DSec("Sec", {}, << DInt("X", "5") >>) >>
    [] s = 7 -> (* case-insensitive context: titles of multi sections, unique titles *)
         << DSec("t", {"MULTI","TITLE"}, << DInt("x", "5") >>),
            DSec("u", {"MULTI","TITLE","NO_TITLE_DUPES"}, << DInt("x", "5") >>) >>
    [] s = 10 -> (* annotations next to long quoted values (scratch buffer reuse in the scanner), and on lists *)
         << DStr("s", "d") >>
    [] s = 13 -> (* annotation on a list, trailing comma *)
         << DIntList("l", <<>>) >>
    [] s = 11 -> (* a deprecated / dropped option as the last item of a section body *)
         << DSec("sec", {}, << DInt("x", "5"), WithFlags(DInt("old", "1"), {"DEPRECATED","DROP"}) >>),
            DSec("m", {"MULTI"}, << WithFlags(DIntList("ol", <<>>), {"DEPRECATED","DROP"}) >>) >>
    [] s = 12 -> (* a free-form section in a context that ignores unknown items *)
         << DInt("i", "7"), DSec("kv", {"KEYSTRVAL"}, <<>>) >>
    [] s = 9 -> (* one titled multi section with a pointer: replacement in place, release of the old instance *)
         << DSec("t", {"MULTI","TITLE"}, << DInt("x", "5"), DPtr("p") >>) >>
    [] s = 8 -> (* two lists with defaults: interplay of consecutive list assignments *)
         << DIntList("la", <<"1","2">>), DStrList("lb", <<"x">>) >>
    [] s = 22 -> (* plain sections nested in plain sections (all created with the context) *)
         << DSec("o", {}, << DSec("n", {}, << DSec("d", {}, << DInt("x", "5") >>) >>) >>) >>
    [] s = 20 -> (* one scalar: room for long texts over a small alphabet *)
         << DInt("i", "7") >>
    [] s = 21 -> (* a section option that carries the case-insensitivity flag itself, in a case-sensitive context *)
         << DSec("t", {"MULTI","TITLE","NOCASE"}, << DInt("x", "5") >>), DInt("i", "7") >>
    [] s = 19 -> (* validation callbacks on a section, on an option inside it and on a top-level scalar *)
         << WithCb(DSec("m", {"MULTI"}, << WithCb(DInt("x", "5"), {"valid"}) >>), {"valid"}),
            WithCb(DInt("i", "7"), {"valid"}) >>
    [] s = 18 -> (* two scalars: annotations whose text touches the comment brackets *)
         << DInt("i", "7"), DStr("s", "d") >>
    [] s = 17 -> (* validation callbacks on options that are dropped after use *)
         << WithCb(WithFlags(DInt("old", "1"), {"DEPRECATED","DROP"}), {"valid"}),
            WithCb(WithFlags(DIntList("ol", <<>>), {"DEPRECATED","DROP"}), {"valid"}),
            WithCb(WithFlags(DInt("dep", "1"), {"DEPRECATED"}), {"parse", "valid"}), DInt("i", "7") >>
    [] s = 16 -> (* deprecated options next to ordinary ones at the top level *)
         << WithFlags(DInt("dep", "1"), {"DEPRECATED"}), WithFlags(DInt("old", "1"), {"DEPRECATED","DROP"}), DInt("i", "7") >>
    [] s = 15 -> (* declared sections inside a free-form section: they are free-form too *)
         << DSec("kv", {"KEYSTRVAL"}, << DSec("in", {}, << DInt("x", "5") >>),
                                         DSec("g", {"MULTI","TITLE"}, <<>>) >>) >>
    [] s = 14 -> (* options whose value lives in the caller's variables (the CFG_SIMPLE macros) *)
         << DSimple("n", "int", "0"), DSimple("w", "str", Null), DSimple("v", "bool", "false"),
            DSimple("d", "float", "0"), DInt("i", "7"),
            DSec("sec", {}, << DSimple("k", "int", "0") >>) >>

NoCase(s) == s \in {6, 7}

ValuePool(s) ==
  CASE s = 1 -> {"1", "x", "true", "1.5"}
    [] s = 2 -> IF Mode \in {"ignore", "ignorecmt"} THEN {"1"} ELSE {"1", "x"}
    [] s = 3 -> {"1", "x"}
    [] s = 4 -> {"1", "x"}
    [] s = 5 -> {"1", "x"}
    [] s = 6 -> {"1", "I", "sl", "sec", "x"}
    [] s = 7 -> {"1"}
    [] s = 8 -> {"1"}
    [] s = 9 -> {"1"}
    [] s = 10 -> {"a b c d e f"}
    [] s = 13 -> {"1"}
    [] s = 11 -> {"1"}
    [] s = 12 -> {"1"}
    [] s = 14 -> {"1", "x", "true"}
    [] s = 15 -> {"1"}
    [] s = 16 -> {"1"}
    [] s = 17 -> {"1"}
    [] s = 18 -> {"1"}
    [] s = 19 -> {"1"}
    [] s = 20 -> {"1"}
    [] s = 21 -> {"1"}
    [] s = 22 -> {"1"}
TitlePool(s) == IF s \in {2, 3, 4} THEN (IF Mode \in {"ignore", "ignorecmt"} THEN {"a"} ELSE {"a", "b"})
                ELSE IF s = 7 THEN {"a", "A"} ELSE IF s \in {9, 15, 21} THEN {"a"} ELSE {}

(* ------------------------------------------------------------------ *)
(* token alphabet, depending on where the parser is                    *)
(* ------------------------------------------------------------------ *)
Punct == {"=", "+=", "{", "}", "(", ")", ","}

NamesHere == LET f == Top(ps) IN {f.sec.opts[i].name : i \in 1..Len(f.sec.opts)}

StrTokens ==
  {TkStr(v) : v \in NamesHere \cup {"zz"} \cup ValuePool(sid) \cup TitlePool(sid)
                   (* an undeclared name that looks like a path into a section that does not exist *)
                   \cup (IF sid = 16 THEN {"zz|x"} ELSE {})
                   (* a declared name in the other letter case: undeclared in a case-sensitive context *)
                   \cup (IF sid = 21 THEN {"T"} ELSE {})}

(* line breaks: at most NlBudget newlines per text keeps the space finite *)
NlBudget == 2
NlUsed == LET F[i \in 0..Len(hist)] == IF i = 0 THEN 0 ELSE F[i-1] + hist[i].nl + hist[i].nlin IN F[Len(hist)]

CommentTokens ==
  CASE Mode = "comments" -> {Tk("cmt", "c1", 0), Tk("cmt", "", 0)}
                            (* comment texts that end / begin with the characters of the comment brackets *)
                            \cup (IF sid = 18 THEN {Tk("cmt", "c *", 0), Tk("cmt", "/ c", 0), Tk("cmt", "c \\", 0)} ELSE {})
    [] Mode = "ignorecmt" -> {Tk("cmt", "c1", 0)}
    [] Mode = "lines"    -> {Tk("cmt", "c1", 0)} \cup
                            (IF NlUsed < NlBudget THEN {[Tk("cmt", "c1\nc2", 0) EXCEPT !.nlin = 1]} ELSE {})
    [] OTHER             -> {}

(* a string value spanning two lines (literal newline inside double quotes) *)
MultiLineTokens == IF Mode = "lines" /\ NlUsed < NlBudget THEN {[TkStr("p\nq") EXCEPT !.nlin = 1]} ELSE {}

NlChoices == IF Mode \in {"lines", "cblines"} /\ NlUsed < NlBudget THEN {0, 1} ELSE {0}

Alphabet ==
  {[t EXCEPT !.nl = n] : t \in {TkP(k) : k \in (IF sid = 20 THEN {"=", "{", "}"} ELSE Punct)} \cup StrTokens \cup CommentTokens \cup MultiLineTokens,
                         n \in NlChoices}

(* ------------------------------------------------------------------ *)
(* behaviour                                                           *)
(* ------------------------------------------------------------------ *)
Expected(p) ==
  [status |-> p.status,
   obs    |-> ObsSec(RootOf(p)),
   ndiag  |-> IF p.depr THEN AnyV ELSE IF p.diags = <<>> THEN "0" ELSE "some",
   ndep   |-> p.ndep,          \* deprecation notices: the only diagnostics of an accepted text
   diag1  |-> IF p.diags = <<>> THEN [file |-> Null, line |-> 0] ELSE p.diags[1],
   cblog  |-> p.cblog,
   freed  |-> p.freed]

Cfgs ==
  CASE Mode = "plain"     -> {ParseCfg(FALSE, FALSE, FALSE, 0, 0, 0)}
    [] Mode = "comments"  -> {ParseCfg(FALSE, c, FALSE, 0, 0, 0) : c \in BOOLEAN}
    [] Mode = "lines"     -> {ParseCfg(FALSE, FALSE, FALSE, 0, 0, 0)}
    [] Mode = "cblines"   -> (* line breaks and a validation callback that refuses (1st / 2nd invocation) *)
                             {ParseCfg(FALSE, FALSE, FALSE, 0, fv, 0) : fv \in 1..2}
    [] Mode = "ignore"    -> {ParseCfg(FALSE, FALSE, TRUE, 0, 0, 0)}
    [] Mode = "ignorecmt" -> {ParseCfg(FALSE, TRUE, TRUE, 0, 0, 0)}
    [] Mode = "callbacks" -> (* no failure, or exactly one failing invocation (1st / 2nd of a kind) *)
                             {ParseCfg(FALSE, FALSE, FALSE, fp, fv, ff) :
                                fp \in 0..2, fv \in 0..2, ff \in 0..1} \cap
                             {c \in [nocase : {FALSE}, comments : {FALSE}, ignore : {FALSE},
                                     failParse : 0..2, failValid : 0..2, failFunc : 0..1] :
                                (IF c.failParse > 0 THEN 1 ELSE 0) + (IF c.failValid > 0 THEN 1 ELSE 0) + c.failFunc <= 1}

Init ==
  /\ sid \in Sids
  /\ pcfg \in {[c EXCEPT !.nocase = NoCase(sid)] : c \in Cfgs}
  /\ root0 = MkSec(Null, InitOpts(Schema(sid)))
  /\ done = <<>>
  /\ hist = <<>>
  /\ ps = PInit(root0, pcfg, "buf", FALSE, 0, 0, 0)

Feed(t) ==
  /\ ps.status = "more"
  /\ Len(hist) < MaxLen
  /\ hist' = Append(hist, t)
  /\ ps' = PStepI(ps, t)
  /\ UNCHANGED <<sid, pcfg, root0, done>>

(* the text ends here: end of input is fed (unless the parse already failed) *)
EndParse(n) ==
  /\ Len(done) < MaxParses
  /\ hist # <<>> \/ done = <<>>
  /\ ps.status \in {"more", "fail", "unspec"}
  /\ ps.status # "more" => n = 0
  /\ LET eof == [TkEof EXCEPT !.nl = n]
         fin == IF ps.status = "more" THEN PStep(ps, eof) ELSE ps
         toks == IF ps.status = "more" THEN Append(hist, eof) ELSE hist
     IN /\ done' = Append(done, [toks |-> toks, exp |-> Expected(fin), root |-> RootOf(fin)])
        /\ hist' = <<>>
        /\ ps' = [PInit(RootOf(fin), pcfg, "buf", FALSE, fin.cn, fin.vn, fin.fn)
                    EXCEPT !.status = IF Len(done) + 1 < MaxParses /\ fin.status # "unspec"
                                        THEN "more" ELSE "end"]
  /\ UNCHANGED <<sid, pcfg, root0>>

Next == (\E t \in Alphabet : Feed(t)) \/ (\E n \in NlChoices : EndParse(n))

Spec == Init /\ [][Next]_vars

(* ------------------------------------------------------------------ *)
(* properties on the specification                                     *)
(* ------------------------------------------------------------------ *)
(* the root this parse started from: the collapsed root of the previous one *)
StartRoot == IF done = <<>> THEN root0 ELSE done[Len(done)].root

(* C01: three-valued agreement with the reference language, and the        *)
(* denotation on acceptance                                                *)
RefNow(withEof) ==
  Meaning(StartRoot, FALSE, IF withEof THEN Append(hist, TkEof) ELSE hist,
          [nocase |-> pcfg.nocase, ignore |-> pcfg.ignore])
RefModes == {"plain", "comments", "lines", "ignore", "ignorecmt"}
P_C01_ViablePrefix ==
  (Mode \in RefModes /\ ps.status \in {"more", "fail", "unspec"}) =>
     RefNow(FALSE).st = ps.status
P_C01_AcceptIffGrammar ==
  (Mode \in RefModes /\ ps.status = "more") =>
     LET fin == PStep(ps, TkEof)
         ref == RefNow(TRUE)
     IN /\ (fin.status = "ok") <=> (ref.st = "ok")
        /\ fin.status = "ok" => DenSec(RootOf(fin)) = DenSec(ref.sec)

(* C06 on the model: rejected => reported; accepted without deprecated => silent *)
P_C06_Reported ==
  /\ ps.status = "fail" => ps.diags # <<>>
  /\ (ps.status = "more" /\ ~ps.depr) => ps.diags = <<>>

(* C06: the first diagnostic names the line on which the offending token   *)
(* ends: 1 + every newline before or inside the tokens read so far         *)
RECURSIVE NewlinesIn(_)
NewlinesIn(toks) == IF toks = <<>> THEN 0 ELSE Head(toks).nl + Head(toks).nlin + NewlinesIn(Tail(toks))
P_C06_Position ==
  ps.status = "fail" => /\ ps.diags[1].line = 1 + NewlinesIn(hist)
                        /\ ps.diags[1].file = "buf"

(* C15: comments are transparent - the same text without its comments has   *)
(* the same verdict and the same values, with annotation support on or off *)
StartPs == PInit(StartRoot, pcfg, "buf", FALSE, 0, 0, 0)
P_C15_Transparent ==
  (Mode \in {"comments", "lines"} /\ ps.status \in {"more", "fail"}) =>
     LET q == PRun(StartPs, NoComments(hist))
     IN /\ q.status = ps.status
        /\ DenSec(RootOf(q)) = DenSec(RootOf(ps))
        /\ (ps.status = "more" =>
              LET a == PStep(ps, TkEof)  b == PStep(q, TkEof)
              IN a.status = b.status /\ DenSec(RootOf(a)) = DenSec(RootOf(b)))

(* C15: a comment immediately before the assignment of a scalar (flat       *)
(* schema 1: every token is at top level) is that option's annotation      *)
P_C15_Annotation ==
  (Mode = "comments" /\ pcfg.comments /\ sid = 1 /\ ps.status = "more" /\ Top(ps).st = 0) =>
     \A i \in 1..(Len(hist) - 3) :
        LET idx == FindOpt(ps.stack[1].sec.opts, hist[i+1].v, pcfg.nocase)
        IN (/\ hist[i].k = "cmt" /\ hist[i+1].k = "str" /\ hist[i+2].k = "=" /\ hist[i+3].k = "str"
            /\ idx # 0
            /\ ~IsList(ps.stack[1].sec.opts[idx])
            /\ \A j \in (i+4)..(Len(hist)-1) :
                  ~(hist[j].k = "str" /\ hist[j].v = hist[i+1].v /\ hist[j+1].k = "="))
           => ps.stack[1].sec.opts[idx].cmt = hist[i].v

(* C12: with ignore-unknown an accepted text means what the same text      *)
(* without its undeclared items means (the reference skips them without    *)
(* effect, and P_C01_AcceptIffGrammar ties the state machine to it);       *)
(* no diagnostic; and without the flag the same text is rejected.          *)
P_C12_Silent ==
  (Mode \in {"ignore", "ignorecmt"} /\ ps.status = "more" /\ PStep(ps, TkEof).status = "ok") => PStep(ps, TkEof).diags = <<>>
HasUnknownItem ==
  \E i \in 1..Len(hist) : hist[i] = TkStr("zz") /\ (i = 1 \/ hist[i-1].k \in {"str", "}", ")"})
P_C12_RejectedWithout ==
  (* (inside a free-form section every key is "declared": not part of this statement) *)
  (Mode \in {"ignore", "ignorecmt"} /\ sid # 12 /\ ps.status = "more" /\ PStep(ps, TkEof).status = "ok") =>
     LET q == PRun([StartPs EXCEPT !.pc.ignore = FALSE], Append(hist, TkEof))
         r == Meaning(StartRoot, FALSE, Append(hist, TkEof), [nocase |-> pcfg.nocase, ignore |-> FALSE])
     IN /\ q.status = r.st
        /\ (q.status = "ok" => DenSec(RootOf(q)) = DenSec(RootOf(PStep(ps, TkEof))))
        /\ (q.status = "fail" => q.diags # <<>>)

(* C14: a callback's verdict binds - once the chosen invocation has failed  *)
(* the parse is over, nothing later is invoked or applied                  *)
P_C14_VerdictBinds ==
  (Mode = "callbacks" /\ done = <<>>) =>
    /\ (pcfg.failParse # 0 => ps.cn <= pcfg.failParse)
    /\ (pcfg.failValid # 0 => ps.vn <= pcfg.failValid)
    /\ (pcfg.failFunc  # 0 => ps.fn <= pcfg.failFunc)
    /\ ((pcfg.failParse # 0 /\ ps.cn = pcfg.failParse) => ps.status = "fail")
    /\ ((pcfg.failValid # 0 /\ ps.vn = pcfg.failValid) => ps.status = "fail")
    /\ ((pcfg.failFunc  # 0 /\ ps.fn = pcfg.failFunc)  => ps.status = "fail")
    /\ (ps.status = "fail" /\ ps.cblog # <<>> /\
          (ps.cn = pcfg.failParse \/ ps.vn = pcfg.failValid \/ ps.fn = pcfg.failFunc) /\
          (pcfg.failParse + pcfg.failValid + pcfg.failFunc > 0)) => TRUE

(* C14: the stored value of an option with a value-parsing callback is the  *)
(* one the callback produced for a logged invocation on that option         *)
ParseEntries == SelectSeq(ps.cblog, LAMBDA e : e.k = "parse")
P_C14_StoredIsProduced ==
  (Mode = "callbacks" /\ done = <<>>) =>
    \A i \in 1..Len(ps.stack[1].sec.opts) :
       LET o == ps.stack[1].sec.opts[i]
       IN ("parse" \in o.cb /\ ~o.reset) =>
            \A j \in 1..Len(o.vals) :
               \E n \in 1..Len(ParseEntries) :
                  /\ ParseEntries[n].o = o.name
                  /\ o.vals[j] = CbValue(o.type, ParseEntries[n].v, n)

(* C14: the validation callback runs right after the store, with the new    *)
(* value visible as the last one of the option                             *)
P_C14_ValidateSeesValue ==
  (Mode = "callbacks" /\ done = <<>>) =>
    \A e \in 1..Len(ps.cblog) :
       (ps.cblog[e].k = "valid" /\ ps.cblog[e].o \in {"i", "sl"}) =>
          /\ e > 1
          /\ ps.cblog[e-1].o = ps.cblog[e].o
          /\ ps.cblog[e].vals # <<>>
          /\ LET m == Len(SelectSeq(SubSeq(ps.cblog, 1, e), LAMBDA x : x.k = "parse"))
                 pe == SelectSeq(SubSeq(ps.cblog, 1, e), LAMBDA x : x.k = "parse")
             IN m > 0 /\ pe[m].o = ps.cblog[e].o /\
                ps.cblog[e].vals[Len(ps.cblog[e].vals)] =
                   CbValue(IF ps.cblog[e].o = "i" THEN "int" ELSE "str", pe[m].v, m)

(* C07 on the model: a user pointer is released at most once, and never     *)
(* while the store still holds it                                          *)
RECURSIVE SeqToSet(_)
SeqToSet(s) == IF s = <<>> THEN {} ELSE {Head(s)} \cup SeqToSet(Tail(s))
P_C07_ReleasedOnce ==
  LET fr == ps.freed
  IN /\ \A i, j \in 1..Len(fr) : i # j => fr[i] # fr[j]
     /\ SeqToSet(fr) \cap SeqToSet(PtrsOfSec(RootOf(ps))) = {}

(* C02 on the model: the frame stack never exceeds the declared nesting + 1 *)
P_C02_DepthBounded == Len(ps.stack) <= 4

(* emission of behaviours for leg A *)
Emit ==
  (hist = <<>> /\ done # <<>>) =>
     PrintT(<<"BEH", ToJson([sid |-> sid, pcfg |-> pcfg,
                             parses |-> [i \in 1..Len(done) |-> [toks |-> done[i].toks, exp |-> done[i].exp]]])>>)

ASSUME \A s \in Sids : PrintT(<<"SCHEMA", s, ToJson(Schema(s))>>)

=============================================================================
