------------------------------- MODULE MC_Own -------------------------------
(***************************************************************************)
(* C16: a context owns a private copy of its schema and shares nothing.    *)
(* Two contexts are created from the same declarations; the declarations   *)
(* are then poisoned and released (the specification never reads them      *)
(* again: every later section instance is built from the context's own     *)
(* copy).  Operations on the two contexts - and on sibling instances of    *)
(* one multi section - are interleaved; each context must show exactly     *)
(* what its own operations produce.                                        *)
(***************************************************************************)
EXTENDS Api, Json

CONSTANTS MaxOps,
          Alpha      \* "full": every text and call below; "core": the smaller alphabet used at the larger depth

VARIABLES ctx, solo, vcount, hist
vars == <<ctx, solo, vcount, hist>>

Schema ==
  << DInt("i", "7"), DStrList("l", <<"a">>),
     DSec("m", {"MULTI"}, << DInt("x", "5"), DStrList("ml", <<"d">>),
                             DSec("n", {"MULTI"}, << DInt("y", "1"), DStr("ns", "deep") >>),
                             DStr("ms", "dflt"), DFloat("mf", "2.25"), DBool("mb", "true") >>),
     DSec("t", {"MULTI","TITLE"}, << DInt("x", "5"), DStr("ts", "tdef"), DStrList("tl", <<"u">>) >>),
     DSec("kv", {"KEYSTRVAL"}, <<>>),
     (* a single section: removed through the API and opened again by a later parse *)
     DSec("s1", {}, << DInt("q", "4"), DStr("qs", "sdef") >>) >>

Fresh == MkSec(Null, InitOpts(Schema))

T(s) == TkStr(s)
Texts ==
  [newm  |-> <<T("m"), TkP("{"), T("x"), TkP("="), T("1"), T("n"), TkP("{"), TkP("}"), TkP("}")>>,
   key   |-> <<T("kv"), TkP("{"), T("k"), TkP("="), T("v"), TkP("}")>>,
   seti  |-> <<T("i"), TkP("="), T("3"), T("l"), TkP("+="), T("b")>>,
   (* an undeclared key outside the free-form section: must stay an error whatever happened before *)
   stray |-> <<T("m"), TkP("{"), T("zz"), TkP("="), T("1"), TkP("}")>>,
   opens1 |-> <<T("s1"), TkP("{"), TkP("}")>>,
   (* three instances at once; a titled instance that is filled, and opened again under the same title *)
   threem |-> <<T("m"), TkP("{"), T("x"), TkP("="), T("1"), TkP("}"), T("m"), TkP("{"), T("x"), TkP("="), T("2"), TkP("}"),
                T("m"), TkP("{"), T("x"), TkP("="), T("3"), TkP("}")>>,
   fillt  |-> <<T("t"), T("a"), TkP("{"), T("x"), TkP("="), T("1"), T("tl"), TkP("+="), T("v"), TkP("}")>>,
   opent  |-> <<T("t"), T("a"), TkP("{"), TkP("}")>>]
TextNames == IF Alpha = "core" THEN {"newm", "key", "opens1"}
             ELSE {"newm", "key", "seti", "stray", "opens1", "threem", "fillt", "opent"}

M1 == <<[oi |-> 3, ii |-> 1]>>
M2 == <<[oi |-> 3, ii |-> 2]>>
Calls ==
  [setint  |-> Call("setint", <<>>, "i", 0, "9", <<>>),
   note    |-> Call("setcomment", <<>>, "i", 0, "note", <<>>),
   addt    |-> Call("addtsec", <<>>, "t", 0, "a", <<>>),
   rmt     |-> Call("rmtsec", <<>>, "t", 0, "a", <<>>),
   sib1    |-> Call("setint", M1, "x", 0, "8", <<>>),
   sib2    |-> Call("addlist", M2, "ml", 0, "", <<"e">>),
   rms1    |-> Call("rmnsec", <<>>, "s1", 0, "", <<>>),
   rmm0    |-> Call("rmnsec", <<>>, "m", 0, "", <<>>)]
CallNames == IF Alpha = "core" THEN {"note", "addt", "sib1", "sib2", "rms1"}
             ELSE {"setint", "note", "addt", "rmt", "sib1", "sib2", "rms1", "rmm0"}

(* cfg_set_validate_func(cfg, path, cb): on "i" the context's own option; on "m|x" the
   context's own template for future instances of m *)
Install(r, where) ==
  IF where = "i" THEN [r EXCEPT !.opts[1].cb = @ \cup {"valid"}]
  ELSE [r EXCEPT !.opts[3].sub[1].cb = @ \cup {"valid"}]

Env == [nocase |-> FALSE, nv2 |-> 0, fail2 |-> 0, rw2 |-> 0]

Init == /\ ctx = [c \in {1, 2} |-> Fresh]
        /\ solo = [c \in {1, 2} |-> Fresh]
        /\ vcount = [c \in {1, 2} |-> 0]
        /\ hist = <<>>

Record(c, op, arg, ret, cblog, r) ==
  hist' = Append(hist, [c |-> c, op |-> op, arg |-> arg, ret |-> ret, cblog |-> cblog,
                        obs |-> [k \in {1, 2} |-> ObsSec(IF k = c THEN r ELSE ctx[k])]])

DoParse(c, n) ==
  LET p == PRun(PInit(ctx[c], PlainCfg, "buf", FALSE, 0, vcount[c], 0), Append(Texts[n], TkEof))
  IN /\ ctx' = [ctx EXCEPT ![c] = RootOf(p)]
     /\ solo' = [solo EXCEPT ![c] = RootOf(PRun(PInit(solo[c], PlainCfg, "buf", FALSE, 0, vcount[c], 0), Append(Texts[n], TkEof)))]
     /\ vcount' = [vcount EXCEPT ![c] = p.vn]
     /\ Record(c, "parse", n, p.status, p.cblog, RootOf(p))

DoCall(c, n) ==
  LET r == ApiStep(ctx[c], Calls[n], Env)
  IN /\ r.ret # "unspec"
     /\ ctx' = [ctx EXCEPT ![c] = r.root]
     /\ solo' = [solo EXCEPT ![c] = ApiStep(solo[c], Calls[n], Env).root]
     /\ UNCHANGED vcount
     /\ Record(c, "call", n, r.ret, <<>>, r.root)

DoInstall(c, w) ==
  /\ ctx' = [ctx EXCEPT ![c] = Install(ctx[c], w)]
  /\ solo' = [solo EXCEPT ![c] = Install(solo[c], w)]
  /\ UNCHANGED vcount
  /\ Record(c, "install", w, "ok", <<>>, Install(ctx[c], w))

Next == /\ Len(hist) < MaxOps
        /\ \E c \in {1, 2} :
             \/ \E n \in TextNames : DoParse(c, n)
             \/ \E n \in CallNames : DoCall(c, n)
             \/ \E w \in {"i", "m|x"} : DoInstall(c, w)
Spec == Init /\ [][Next]_vars

(* each context equals the result of its own operations alone *)
P_C16_Solo == \A c \in {1, 2} : ctx[c] = solo[c]
(* an operation on one context never changes the other *)
P_C16_NoCrossTalk == [][ \A c \in {1, 2} : (hist' # hist /\ hist'[Len(hist')].c # c) => ctx'[c] = ctx[c] ]_vars
(* sibling instances of one multi section are independent: sib1 changes only the first instance, sib2 only the second *)
Inst(r, k) == r.opts[3].vals[k]
P_C16_Siblings ==
  [][ (hist' # hist /\ hist'[Len(hist')].op = "call" /\ hist'[Len(hist')].ret = "ok") =>
        LET e == hist'[Len(hist')]
            n == Len(ctx[e.c].opts[3].vals)
        IN /\ ((e.arg = "sib1" /\ n >= 2) => Inst(ctx'[e.c], 2) = Inst(ctx[e.c], 2))
           /\ ((e.arg = "sib2" /\ n >= 2) => Inst(ctx'[e.c], 1) = Inst(ctx[e.c], 1)) ]_vars

Emit == (hist # <<>>) => PrintT(<<"BEH", ToJson([hist |-> hist])>>)
ASSUME PrintT(<<"SCHEMA", 1, ToJson(Schema)>>)
ASSUME PrintT(<<"TEXTS", ToJson(Texts)>>)
ASSUME PrintT(<<"CALLS", ToJson(Calls)>>)
=============================================================================
