-------------------------------- MODULE Lang --------------------------------
(***************************************************************************)
(* Reference meaning of the configuration language (DESIGN.md Appendix A):  *)
(* a recursive-descent recogniser over the item grammar with the           *)
(* denotation of property C01 folded in.  Written from the documented      *)
(* grammar, independently of the state machine in Parser.tla; TLC checks   *)
(* that the two agree on every token sequence (MC_C01).                    *)
(*                                                                         *)
(* Result: [st |-> "ok" | "fail" | "more", sec, rest]; "more" = the token   *)
(* list ended inside an item (a viable prefix).                            *)
(***************************************************************************)
EXTENDS Store

ROk(sec, rest) == [st |-> "ok",   sec |-> sec, rest |-> rest]
RFail          == [st |-> "fail", sec |-> <<>>, rest |-> <<>>]
RMore          == [st |-> "more", sec |-> <<>>, rest |-> <<>>]

NoComments(toks) == SelectSeq(toks, LAMBDA t : t.k # "cmt")

(* the values of "{ v, v, }" or of a single bare value, appended to o *)
RECURSIVE RListBody(_, _, _)
RListBody(o, toks, wantValue) ==
  IF toks = <<>> THEN RMore
  ELSE LET t == Head(toks)
       IN IF t.k = "}" THEN ROk(o, Tail(toks))
          ELSE IF wantValue
            THEN IF t.k # "str" THEN RFail
                 ELSE LET v == Conv(o.type, t.v)
                      IN IF v = Bad THEN RFail
                         ELSE RListBody([o EXCEPT !.vals = Append(@, v)], Tail(toks), FALSE)
            ELSE IF t.k = "," THEN RListBody(o, Tail(toks), TRUE) ELSE RFail

(* NAME ('='|'+=') ... for a scalar or list option o *)
RAssign(o, toks) ==
  IF toks = <<>> THEN RMore
  ELSE LET op == Head(toks).k
           r1 == Tail(toks)
       IN IF op \notin {"=", "+="} THEN RFail
          ELSE IF op = "+=" /\ ~IsList(o) THEN RFail
          ELSE IF r1 = <<>> THEN RMore
          ELSE LET o0 == [o EXCEPT !.vals = IF op = "=" THEN <<>> ELSE @,
                                   !.mod = TRUE, !.reset = FALSE]
                   t  == Head(r1)
               IN IF IsList(o) /\ t.k = "{" THEN RListBody(o0, Tail(r1), TRUE)
                  ELSE IF t.k # "str" THEN RFail
                  ELSE LET v == Conv(o.type, t.v)
                       IN IF v = Bad THEN RFail
                          ELSE ROk([o0 EXCEPT !.vals = Append(@, v)], Tail(r1))

(* '(' [v (',' v)* [',']] ')' : nothing is stored *)
RECURSIVE RArgs(_, _)
RArgs(toks, wantValue) ==
  IF toks = <<>> THEN RMore
  ELSE LET t == Head(toks)
       IN IF t.k = ")" THEN ROk(<<>>, Tail(toks))
          ELSE IF wantValue THEN (IF t.k = "str" THEN RArgs(Tail(toks), FALSE) ELSE RFail)
          ELSE IF t.k = "," THEN RArgs(Tail(toks), TRUE) ELSE RFail

Dropped(o) == IF {"DEPRECATED", "DROP"} \subseteq o.flags
                THEN [o EXCEPT !.vals = <<>>, !.cmt = Null] ELSE o

RUnspec        == [st |-> "unspec", sec |-> <<>>, rest |-> <<>>]

(* ------------------------------------------------------------------ *)
(* well-formed undeclared items (C12), skipped when the context was    *)
(* created with the ignore-unknown flag:                               *)
(*   u ::= NAME ('='|'+=') (v | '{' [v (',' v)* [',']] '}')            *)
(*       | NAME '(' [v (',' v)* [',']] ')'                             *)
(*       | NAME [TITLE] '{' u* '}'                                     *)
(* Anything else after an undeclared name is outside the property      *)
(* ("unspec").                                                         *)
(* ------------------------------------------------------------------ *)
RECURSIVE RSkipSeq(_, _, _), RSkipBody(_), RSkipItem(_)
(* v (',' v)* [','] closer *)
RSkipSeq(toks, closer, wantValue) ==
  IF toks = <<>> THEN RMore
  ELSE LET t == Head(toks)
       IN IF t.k = "eof" THEN RFail
          ELSE IF t.k = closer THEN ROk(<<>>, Tail(toks))
          ELSE IF wantValue THEN (IF t.k = "str" THEN RSkipSeq(Tail(toks), closer, FALSE) ELSE RUnspec)
          ELSE IF t.k = "," THEN RSkipSeq(Tail(toks), closer, TRUE) ELSE RUnspec
RSkipItem(toks) ==
  IF toks = <<>> THEN RMore
  ELSE LET t == Head(toks)
           r == Tail(toks)
       IN IF t.k = "eof" THEN RFail
          ELSE IF t.k \in {"=", "+="} THEN
                 IF r = <<>> THEN RMore
                 ELSE IF Head(r).k = "eof" THEN RFail
                 ELSE IF Head(r).k = "str" THEN ROk(<<>>, Tail(r))
                 ELSE IF Head(r).k = "{" THEN RSkipSeq(Tail(r), "}", TRUE)
                 ELSE RUnspec
          ELSE IF t.k = "(" THEN RSkipSeq(r, ")", TRUE)
          ELSE IF t.k = "{" THEN RSkipBody(r)
          ELSE IF t.k = "str" THEN
                 IF r = <<>> THEN RMore
                 ELSE IF Head(r).k = "eof" THEN RFail
                 ELSE IF Head(r).k = "{" THEN RSkipBody(Tail(r)) ELSE RUnspec
          ELSE RUnspec
RSkipBody(toks) ==
  IF toks = <<>> THEN RMore
  ELSE LET t == Head(toks)
       IN IF t.k = "eof" THEN RFail
          ELSE IF t.k = "}" THEN ROk(<<>>, Tail(toks))
          ELSE IF t.k = "str" THEN
                 LET r == RSkipItem(Tail(toks))
                 IN IF r.st # "ok" THEN r ELSE RSkipBody(r.rest)
          ELSE RUnspec

RECURSIVE RItems(_, _, _, _, _), RItem(_, _, _, _, _)

RItem(sec, kv, name, toks, rc) ==
  LET nocase == rc.nocase
      idx == FindOpt(sec.opts, name, nocase)
  IN IF idx = 0 THEN
        IF rc.ignore THEN
           (* the undeclared item is skipped: nothing changes *)
           LET r == RSkipItem(toks)
           IN IF r.st # "ok" THEN r ELSE ROk(sec, r.rest)
        ELSE IF ~kv THEN RFail
        ELSE (* free-form key: created, then assigned like a string scalar *)
             LET key == FreeKey(name)
                 r   == RAssign(key, toks)
             IN IF r.st # "ok" THEN r
                ELSE ROk([sec EXCEPT !.opts = Append(@, r.sec)], r.rest)
     ELSE LET o == sec.opts[idx]
          IN IF o.type = "func" THEN
                IF toks = <<>> THEN RMore
                ELSE IF Head(toks).k # "(" THEN RFail
                ELSE LET r == RArgs(Tail(toks), TRUE)
                     IN IF r.st # "ok" THEN r ELSE ROk(sec, r.rest)
             ELSE IF o.type # "sec" THEN
                LET r == RAssign(o, toks)
                IN IF r.st # "ok" THEN r
                   ELSE ROk([sec EXCEPT !.opts[idx] = Dropped(r.sec)], r.rest)
             ELSE (* section: [TITLE] '{' items '}' *)
                LET titled == "TITLE" \in o.flags
                    need   == IF titled THEN 2 ELSE 1
                IN IF Len(toks) < need THEN
                      (IF titled /\ Len(toks) = 1 /\ Head(toks).k # "str" THEN RFail ELSE RMore)
                   ELSE IF titled /\ Head(toks).k # "str" THEN RFail
                   ELSE IF toks[need].k # "{" THEN RFail
                   ELSE LET title == IF titled THEN Head(toks).v ELSE Null
                            body  == SubSeq(toks, need + 1, Len(toks))
                            multi == IsMulti(o)
                            hit   == IF titled /\ (multi \/ o.vals = <<>>)
                                       THEN FindTitle(o.vals, title, nocase) ELSE 0
                            fresh == MkSec(title, InitOpts(o.sub))
                            (* where the body goes, and the section to start from *)
                            ii    == IF multi \/ o.vals = <<>>
                                       THEN (IF hit # 0 THEN hit ELSE Len(o.vals) + 1)
                                       ELSE 1
                            start == IF multi \/ o.vals = <<>> THEN fresh ELSE o.vals[1]
                        IN IF hit # 0 /\ "NO_TITLE_DUPES" \in o.flags THEN RFail
                           ELSE LET r == RItems(start, kv \/ "KEYSTRVAL" \in o.flags, body, FALSE, rc)
                                IN IF r.st # "ok" THEN r
                                   ELSE LET vals2 == IF ii > Len(o.vals) THEN Append(o.vals, r.sec)
                                                     ELSE [o.vals EXCEPT ![ii] = r.sec]
                                        IN ROk([sec EXCEPT !.opts[idx] =
                                                  Dropped([o EXCEPT !.vals = vals2, !.mod = TRUE])],
                                               r.rest)

RItems(sec, kv, toks, top, rc) ==
  IF toks = <<>> THEN RMore
  ELSE LET t == Head(toks)
       IN IF t.k = "eof" THEN (IF top THEN ROk(sec, <<>>) ELSE RFail)
          ELSE IF t.k = "}" THEN (IF top THEN RFail ELSE ROk(sec, Tail(toks)))
          ELSE IF t.k # "str" THEN RFail
          ELSE LET r == RItem(sec, kv, t.v, Tail(toks), rc)
               IN IF r.st # "ok" THEN r ELSE RItems(r.sec, kv, r.rest, top, rc)

(* the meaning of a whole text parsed into root *)
Meaning(root, kvroot, toks, rc) == RItems(root, kvroot, NoComments(toks), TRUE, rc)

(* what C01 compares: values, titles, sizes, modified mark (the default     *)
(* marker and the annotation are not part of the denotation)               *)
RECURSIVE DenSec(_)
DenOpt(o) == [n |-> o.name,
              v |-> IF o.type = "sec" THEN [i \in 1..Len(o.vals) |-> DenSec(o.vals[i])] ELSE o.vals,
              mod |-> o.mod]
DenSec(s) == [t |-> s.title, o |-> [i \in 1..Len(s.opts) |-> DenOpt(s.opts[i])]]

=============================================================================
