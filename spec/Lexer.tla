------------------------------- MODULE Lexer --------------------------------
(***************************************************************************)
(* Rule-level model of the scanner (src/lexer.l): four start conditions,   *)
(* one match-length operator per flex rule, flex's selection (longest      *)
(* match, the earlier rule on ties, and the default rule - copy the byte   *)
(* to standard output - when nothing matches), the scratch buffer, the     *)
(* line counter and ${NAME} / ${NAME:-default} substitution.               *)
(* Input is a sequence of bytes (integers 1..255).                          *)
(*                                                                         *)
(* LexRef (below) is the declarative reading of property C03; TLC checks   *)
(* that the rule machine means exactly that (MC_Lex).                      *)
(***************************************************************************)
EXTENDS Naturals, Sequences, FiniteSets, TLC

Byte == 1..255
cNL == 10  cTAB == 9  cCR == 13  cSP == 32  cDQ == 34  cHASH == 35  cDOLLAR == 36  cSQ == 39
cLP == 40  cRP == 41  cSTAR == 42  cPLUS == 43  cCOMMA == 44  cMINUS == 45  cSLASH == 47
cCOLON == 58  cEQ == 61  cBS == 92  cLB == 123  cRB == 125

OctDigit == 48..55
Digit    == 48..57
HexDigit == Digit \cup 65..70 \cup 97..102
NotNL    == Byte \ {cNL}
(* bytes that end an unquoted word *)
WordStop == {cSP, cHASH, cDQ, cSQ, cTAB, cNL, cCR, cEQ, cLB, cRB, cLP, cRP, cPLUS, cCOMMA, cSTAR}

(* environment: a function from names (byte sequences) to values; absent = unset *)
CONSTANT EnvVars      \* a function  name (Seq(Byte)) -> value (Seq(Byte))

At(s, i) == IF i >= 1 /\ i <= Len(s) THEN s[i] ELSE 0

(* number of consecutive bytes from position i that are in set S *)
RECURSIVE Run(_, _, _)
Run(s, i, S) == IF i <= Len(s) /\ s[i] \in S THEN 1 + Run(s, i + 1, S) ELSE 0
Min(a, b) == IF a < b THEN a ELSE b

(* ------------------------------------------------------------------ *)
(* match lengths, per start condition, in file order                    *)
(* ------------------------------------------------------------------ *)
EnvLen(s, i) ==      \* "${" [^}]* "}"
  IF At(s, i) = cDOLLAR /\ At(s, i + 1) = cLB
    THEN LET r == Run(s, i + 2, Byte \ {cRB})
         IN IF At(s, i + 2 + r) = cRB THEN r + 3 ELSE 0
    ELSE 0

Lit1(s, i, c) == IF At(s, i) = c THEN 1 ELSE 0

RulesInitial(s, i) ==
  << [r |-> "ws",     n |-> Run(s, i, {cSP, cTAB})],
     [r |-> "nl",     n |-> Lit1(s, i, cNL)],
     [r |-> "hash",   n |-> IF At(s, i) = cHASH THEN Run(s, i, NotNL) ELSE 0],
     [r |-> "slash2", n |-> IF At(s, i) = cSLASH /\ At(s, i + 1) = cSLASH THEN Run(s, i, NotNL) ELSE 0],
     [r |-> "{",      n |-> Lit1(s, i, cLB)],
     [r |-> "}",      n |-> Lit1(s, i, cRB)],
     [r |-> "(",      n |-> Lit1(s, i, cLP)],
     [r |-> ")",      n |-> Lit1(s, i, cRP)],
     [r |-> "=",      n |-> Lit1(s, i, cEQ)],
     [r |-> "+=",     n |-> IF At(s, i) = cPLUS /\ At(s, i + 1) = cEQ THEN 2 ELSE 0],
     [r |-> ",",      n |-> Lit1(s, i, cCOMMA)],
     [r |-> "copen",  n |-> IF At(s, i) = cSLASH /\ At(s, i + 1) = cSTAR THEN 2 ELSE 0],
     [r |-> "dqopen", n |-> Lit1(s, i, cDQ)],
     [r |-> "sqopen", n |-> Lit1(s, i, cSQ)],
     [r |-> "env",    n |-> EnvLen(s, i)],
     [r |-> "bare",   n |-> Run(s, i, Byte \ WordStop)],
     [r |-> "eat",    n |-> IF At(s, i) \in NotNL THEN 1 ELSE 0] >>

RulesComment(s, i) ==
  LET stars == Run(s, i, {cSTAR})
      blanks == Run(s, i, {cSP, cTAB})
      st2 == Run(s, i + blanks, {cSTAR})
  IN << [r |-> "ctext",  n |-> Run(s, i, Byte \ {cSTAR, cNL})],
        [r |-> "cstars", n |-> IF stars > 0 THEN stars + Run(s, i + stars, Byte \ {cSTAR, cSLASH, cNL}) ELSE 0],
        [r |-> "cnl",    n |-> Lit1(s, i, cNL)],
        [r |-> "cend",   n |-> IF st2 > 0 /\ At(s, i + blanks + st2) = cSLASH THEN blanks + st2 + 1 ELSE 0] >>

EscLetters == {110, 114, 98, 102, 97, 101, 116, 118}     \* n r b f a e t v
RulesDq(s, i) ==
  LET bs == At(s, i) = cBS
      c1 == At(s, i + 1)
  IN << [r |-> "dqclose", n |-> Lit1(s, i, cDQ)],
        [r |-> "dqenv",   n |-> EnvLen(s, i)],
        [r |-> "dqnl",    n |-> Lit1(s, i, cNL)],
        [r |-> "dqcont",  n |-> IF bs /\ c1 = cNL THEN 2 ELSE 0],
        [r |-> "oct",     n |-> IF bs /\ c1 \in OctDigit THEN 1 + Min(3, Run(s, i + 1, OctDigit)) ELSE 0],
        [r |-> "baddig",  n |-> IF bs /\ c1 \in Digit THEN 1 + Run(s, i + 1, Digit) ELSE 0],
        [r |-> "hex",     n |-> IF bs /\ c1 = 120 /\ At(s, i + 2) \in HexDigit
                                  THEN 2 + Min(2, Run(s, i + 2, HexDigit)) ELSE 0],
        [r |-> "escl",    n |-> IF bs /\ c1 \in EscLetters THEN 2 ELSE 0],
        [r |-> "escany",  n |-> IF bs /\ c1 \in NotNL THEN 2 ELSE 0],
        [r |-> "dqchar",  n |-> IF At(s, i) \in (Byte \ {cBS, cDQ, cNL}) THEN 1 ELSE 0],
        (* repaired scanner: a backslash that nothing else matches (end of input) *)
        [r |-> "dqlone",  n |-> IF bs THEN 1 ELSE 0] >>

RulesSq(s, i) ==
  LET bs == At(s, i) = cBS
      c1 == At(s, i + 1)
  IN << [r |-> "sqclose", n |-> Lit1(s, i, cSQ)],
        [r |-> "sqnl",    n |-> Lit1(s, i, cNL)],
        [r |-> "sqcont",  n |-> IF bs /\ c1 = cNL THEN 2 ELSE 0],
        [r |-> "sqesc",   n |-> IF bs /\ c1 \in {cBS, cSQ} THEN 2 ELSE 0],
        [r |-> "sqkeep",  n |-> IF bs /\ c1 \in (Byte \ {cBS, cSQ}) THEN 2 ELSE 0],
        [r |-> "sqtext",  n |-> Run(s, i, Byte \ {cBS, cSQ, cNL})],
        [r |-> "sqlone",  n |-> IF bs THEN 1 ELSE 0] >>

(* flex: longest match, earliest rule on ties; nothing matches => default rule (ECHO) *)
RECURSIVE BestFrom(_, _, _)
BestFrom(rules, k, best) ==
  IF k > Len(rules) THEN best
  ELSE BestFrom(rules, k + 1, IF rules[k].n > best.n THEN rules[k] ELSE best)
Pick(rules) == LET b == BestFrom(rules, 1, [r |-> "ECHO", n |-> 0]) IN IF b.n = 0 THEN [r |-> "ECHO", n |-> 1] ELSE b

(* ------------------------------------------------------------------ *)
(* actions                                                             *)
(* ------------------------------------------------------------------ *)
RECURSIVE OctVal(_, _, _), HexVal(_, _, _)
OctVal(s, i, n) == IF n = 0 THEN 0 ELSE OctVal(s, i, n - 1) * 8 + (s[i + n - 1] - 48)
HexDig(c) == IF c \in Digit THEN c - 48 ELSE IF c \in 65..70 THEN c - 55 ELSE c - 87
HexVal(s, i, n) == IF n = 0 THEN 0 ELSE HexVal(s, i, n - 1) * 16 + HexDig(s[i + n - 1])

EscLetterVal(c) ==
  CASE c = 110 -> 10 [] c = 114 -> 13 [] c = 98 -> 8 [] c = 102 -> 12
    [] c = 97 -> 7 [] c = 101 -> 27 [] c = 116 -> 9 [] c = 118 -> 11

(* ${...}: body = bytes between "${" and "}" *)
IndexOf(seq, c) == LET S == {k \in 1..Len(seq) : seq[k] = c} IN IF S = {} THEN 0 ELSE CHOOSE k \in S : \A m \in S : k <= m
EnvExpand(body) ==
  LET k    == IndexOf(body, cCOLON)
      split == k # 0 /\ k < Len(body) /\ body[k + 1] = cMINUS
      name == IF split THEN SubSeq(body, 1, k - 1) ELSE body
      dflt == IF split THEN SubSeq(body, k + 2, Len(body)) ELSE <<>>
  IN IF name \in DOMAIN EnvVars THEN EnvVars[name] ELSE dflt

(* white space trimmed at both ends (comment text) *)
IsSpace(c) == c \in {cSP, cTAB, cNL, cCR, 11, 12}
RECURSIVE TrimL(_), TrimR(_)
TrimL(b) == IF b # <<>> /\ IsSpace(Head(b)) THEN TrimL(Tail(b)) ELSE b
TrimR(b) == IF b # <<>> /\ IsSpace(b[Len(b)]) THEN TrimR(SubSeq(b, 1, Len(b) - 1)) ELSE b
Trim(b) == TrimL(TrimR(b))
RECURSIVE DropLeading(_, _)
DropLeading(b, c) == IF b # <<>> /\ Head(b) = c THEN DropLeading(Tail(b), c) ELSE b

CountNL(b) == Cardinality({k \in 1..Len(b) : b[k] = cNL})

(* scanner state: start condition, position, scratch buffer, line, tokens,  *)
(* bytes echoed to stdout, error flag                                      *)
LexInit(line) == [st |-> "INITIAL", i |-> 1, buf |-> <<>>, line |-> line, toks |-> <<>>,
                  echo |-> 0, err |-> FALSE, unspec |-> FALSE, done |-> FALSE, rep |-> TRUE]
(* a scan that starts in start condition st; rep = FALSE models the pinned, unrepaired  *)
(* scanner (kept only as a witness for C08: it leaves its start condition behind)      *)
LexInitAt(st, rep) == [LexInit(1) EXCEPT !.st = st, !.rep = rep]

Tok(k, v, line) == [k |-> k, v |-> v, line |-> line]
NlIn(txt) == Cardinality({j \in 1..Len(txt) : txt[j] = cNL})

LexStep(s, L) ==
  IF L.i > Len(s) THEN
     (* end of input: fine between tokens, an error inside a string or comment *)
     IF L.st = "INITIAL" THEN [L EXCEPT !.done = TRUE, !.toks = Append(@, Tok("eof", <<>>, L.line))]
     (* an unterminated single-quoted string is rejected (C03); for a double-quoted    *)
     (* string or a comment the statements only require that nothing is left behind    *)
     ELSE IF L.rep THEN [L EXCEPT !.done = TRUE, !.err = TRUE, !.unspec = (L.st # "sq_str"), !.st = "INITIAL"]
     (* unrepaired: only '...' is reported; the start condition is left as it is *)
     ELSE IF L.st = "sq_str" THEN [L EXCEPT !.done = TRUE, !.err = TRUE]
     ELSE [L EXCEPT !.done = TRUE, !.toks = Append(@, Tok("eof", <<>>, L.line))]
  ELSE
  LET rules == CASE L.st = "INITIAL" -> RulesInitial(s, L.i)
                 [] L.st = "comment" -> RulesComment(s, L.i)
                 [] L.st = "dq_str"  -> RulesDq(s, L.i)
                 [] L.st = "sq_str"  -> RulesSq(s, L.i)
      p == Pick(rules)
      txt == SubSeq(s, L.i, L.i + p.n - 1)
      N == [L EXCEPT !.i = @ + p.n]
  IN CASE p.r = "ECHO"   -> [N EXCEPT !.echo = @ + 1]
       [] p.r = "ws"     -> N
       [] p.r = "eat"    -> N
       [] p.r = "nl"     -> [N EXCEPT !.line = @ + 1]
       [] p.r = "hash"   -> [N EXCEPT !.toks = Append(@, Tok("cmt", Trim(DropLeading(txt, cHASH)), L.line))]
       [] p.r = "slash2" -> [N EXCEPT !.toks = Append(@, Tok("cmt", Trim(DropLeading(txt, cSLASH)), L.line))]
       [] p.r \in {"{", "}", "(", ")", "=", "+=", ","} -> [N EXCEPT !.toks = Append(@, Tok(p.r, <<>>, L.line))]
       [] p.r = "copen"  -> [N EXCEPT !.st = "comment", !.buf = <<>>]
       [] p.r = "dqopen" -> [N EXCEPT !.st = "dq_str", !.buf = <<>>]
       [] p.r = "sqopen" -> [N EXCEPT !.st = "sq_str", !.buf = <<>>]
       (* a reference may span lines: the newlines inside it are counted *)
       [] p.r = "env"    -> [N EXCEPT !.line = @ + NlIn(txt),
                                      !.toks = Append(@, Tok("str", EnvExpand(SubSeq(txt, 3, Len(txt) - 1)), L.line + NlIn(txt)))]
       [] p.r = "bare"   -> [N EXCEPT !.toks = Append(@, Tok("str", txt, L.line))]
       (* comment *)
       [] p.r \in {"ctext", "cstars"} -> [N EXCEPT !.buf = @ \o txt]
       [] p.r = "cnl"    -> [N EXCEPT !.buf = Append(@, cNL), !.line = @ + 1]
       [] p.r = "cend"   -> [N EXCEPT !.st = "INITIAL", !.toks = Append(@, Tok("cmt", Trim(L.buf), L.line))]
       (* double-quoted string *)
       [] p.r = "dqclose" -> [N EXCEPT !.st = "INITIAL", !.toks = Append(@, Tok("str", L.buf, L.line))]
       [] p.r = "dqenv"  -> [N EXCEPT !.buf = @ \o EnvExpand(SubSeq(txt, 3, Len(txt) - 1)), !.line = @ + NlIn(txt)]
       [] p.r = "dqnl"   -> [N EXCEPT !.buf = Append(@, cNL), !.line = @ + 1]
       [] p.r = "dqcont" -> [N EXCEPT !.line = @ + 1]
       [] p.r = "oct"    -> LET v == OctVal(s, L.i + 1, p.n - 1)
                            IN IF v > 255 THEN [N EXCEPT !.err = TRUE, !.done = TRUE, !.st = IF L.rep THEN "INITIAL" ELSE @]
                               ELSE [N EXCEPT !.buf = Append(@, v)]
       [] p.r = "baddig" -> [N EXCEPT !.err = TRUE, !.done = TRUE, !.st = IF L.rep THEN "INITIAL" ELSE @]
       [] p.r = "hex"    -> [N EXCEPT !.buf = Append(@, HexVal(s, L.i + 2, p.n - 2))]
       [] p.r = "escl"   -> [N EXCEPT !.buf = Append(@, EscLetterVal(s[L.i + 1]))]
       [] p.r = "escany" -> [N EXCEPT !.buf = Append(@, s[L.i + 1])]
       [] p.r = "dqchar" -> [N EXCEPT !.buf = Append(@, s[L.i])]
       (* single-quoted string *)
       [] p.r = "sqclose" -> [N EXCEPT !.st = "INITIAL", !.toks = Append(@, Tok("str", L.buf, L.line))]
       [] p.r = "sqnl"   -> [N EXCEPT !.buf = Append(@, cNL), !.line = @ + 1]
       [] p.r = "sqcont" -> [N EXCEPT !.line = @ + 1]
       [] p.r = "sqesc"  -> [N EXCEPT !.buf = Append(@, s[L.i + 1])]
       [] p.r = "sqkeep" -> [N EXCEPT !.buf = @ \o txt]
       [] p.r = "sqtext" -> [N EXCEPT !.buf = @ \o txt]
       [] p.r = "dqlone" -> [N EXCEPT !.err = TRUE, !.unspec = TRUE, !.done = TRUE, !.st = "INITIAL"]
       [] p.r = "sqlone" -> [N EXCEPT !.err = TRUE, !.done = TRUE, !.st = "INITIAL"]

RECURSIVE LexRun(_, _)
LexRun(s, L) == IF L.done THEN L ELSE LexRun(s, LexStep(s, L))
LexAll(s) == LexRun(s, LexInit(1))

(* ------------------------------------------------------------------ *)
(* LexRef: the declarative reading of C03.                              *)
(* RefDq(s, i): decode the double-quoted literal whose body starts at i *)
(*   -> [ok, val, next]  (ok = FALSE: invalid escape or unterminated)   *)
(* ------------------------------------------------------------------ *)
RefBad == [ok |-> FALSE, val |-> <<>>, next |-> 0]
RECURSIVE RefDq(_, _, _), RefSq(_, _, _)
RefDq(s, i, acc) ==
  IF i > Len(s) THEN RefBad                                   \* unterminated
  ELSE LET c == s[i]
       IN IF c = cDQ THEN [ok |-> TRUE, val |-> acc, next |-> i + 1]
          ELSE IF c = cDOLLAR /\ EnvLen(s, i) > 0
                 THEN RefDq(s, i + EnvLen(s, i), acc \o EnvExpand(SubSeq(s, i + 2, i + EnvLen(s, i) - 2)))
          ELSE IF c # cBS THEN RefDq(s, i + 1, Append(acc, c))
          ELSE (* an escape *)
            LET d == At(s, i + 1)
            IN IF d = 0 THEN RefBad                            \* backslash at end of input
               ELSE IF d = cNL THEN RefDq(s, i + 2, acc)        \* line continuation
               ELSE IF d \in Digit THEN
                      (* a maximal digit run: 1-3 octal digits with value <= 0xFF *)
                      LET n == Run(s, i + 1, Digit)
                      IN IF n <= 3 /\ Run(s, i + 1, OctDigit) = n /\ OctVal(s, i + 1, n) <= 255
                           THEN RefDq(s, i + 1 + n, Append(acc, OctVal(s, i + 1, n)))
                           ELSE RefBad
               ELSE IF d = 120 /\ At(s, i + 2) \in HexDigit THEN
                      LET n == Min(2, Run(s, i + 2, HexDigit))
                      IN RefDq(s, i + 2 + n, Append(acc, HexVal(s, i + 2, n)))
               ELSE IF d \in EscLetters THEN RefDq(s, i + 2, Append(acc, EscLetterVal(d)))
               ELSE RefDq(s, i + 2, Append(acc, d))              \* any other \c means c

RefSq(s, i, acc) ==
  IF i > Len(s) THEN RefBad
  ELSE LET c == s[i]
       IN IF c = cSQ THEN [ok |-> TRUE, val |-> acc, next |-> i + 1]
          ELSE IF c # cBS THEN RefSq(s, i + 1, Append(acc, c))
          ELSE LET d == At(s, i + 1)
               IN IF d = 0 THEN RefBad
                  ELSE IF d = cNL THEN RefSq(s, i + 2, acc)
                  ELSE IF d \in {cBS, cSQ} THEN RefSq(s, i + 2, Append(acc, d))
                  ELSE RefSq(s, i + 2, acc \o <<cBS, d>>)        \* no other unescaping

(* the printer's string encoder (confuse.c, repaired): '"' '\' '$' escaped *)
RECURSIVE EncodeStr(_)
EncodeStr(b) ==
  IF b = <<>> THEN <<>>
  ELSE (IF Head(b) \in {cDQ, cBS, cDOLLAR} THEN <<cBS, Head(b)>> ELSE <<Head(b)>>) \o EncodeStr(Tail(b))

=============================================================================
