------------------------------- MODULE MC_SP --------------------------------
(***************************************************************************)
(* C17: every search-path sequence (up to three adds) over a pool of       *)
(* directories (existing, missing, duplicated, tilde-prefixed) x every     *)
(* placement of a same-named regular file / directory / nothing in the two *)
(* existing directories x a set of names (relative, absolute, missing,     *)
(* sub-directory relative, directory name, tilde forms).                   *)
(***************************************************************************)
EXTENDS SearchPath, Json

CONSTANT MaxAdds

VARIABLES sp, list, place
vars == <<sp, list, place>>

PW == ("root" :> "/root") @@ ("nobody" :> "/nonexistent")
EuidHome == "/root"

(* "$R/d2/sub" extends the name of "$R/d2": directories are told apart by their whole name *)
Dirs == {"$R/d1", "$R/d2", "$R/d2/sub", "$R/missing", "~nouser/d", "~root/.vf-nonexistent"}
Kinds == {"file", "dir", "none"}

FsOf(p) ==
  LET base == ("$R/d1" :> "dir") @@ ("$R/d2" :> "dir") @@ ("$R/d2/sub" :> "dir") @@ ("$R/d2/sub/a.conf" :> "file") @@ ("$R/top.conf" :> "file")
      a1 == IF p.d1 = "none" THEN base ELSE (("$R/d1/a.conf" :> p.d1) @@ base)
      a2 == IF p.d2 = "none" THEN a1 ELSE (("$R/d2/a.conf" :> p.d2) @@ a1)
  IN a2

(* the working directory is $R: "top.conf" and "d1/a.conf" exist relative to it, but in no search directory *)
Names == {"a.conf", "$R/d2/a.conf", "$R/d1/a.conf", "sub/a.conf", "none.conf", "sub", "$R/top.conf", "d1/a.conf", "top.conf"}
TildeNames == {"~", "~/x", "~root", "~root/x/y", "~nobody/x", "~nouser/x", "~nouser", "", "plain", "/abs/~x", "~/", "~root/"}

Init == /\ sp = <<>> /\ list = <<>>
        /\ place \in [d1 : Kinds, d2 : Kinds]
Add(d) == /\ Len(sp) < MaxAdds
          /\ sp' = AddRef(sp, d, PW, EuidHome)
          /\ list' = OpAdd(list, d, PW, EuidHome)
          /\ UNCHANGED place
Next == \E d \in Dirs : Add(d)
Spec == Init /\ [][Next]_vars

Fs == FsOf(place)

(* the prepend + oldest-first recursion finds what "first directory in add order" says *)
P_C17_FirstAdded == \A n \in Names : sp # <<>> => ResolveOp(list, Fs, n) = ResolveRef(sp, Fs, n)
(* an absolute name bypasses the list *)
P_C17_AbsoluteBypass == \A n \in Names : (IsAbs(n) /\ sp # <<>>) =>
                            ResolveRef(sp, Fs, n) = (IF IsRegular(Fs, n) THEN n ELSE NotFound)
(* directories and missing files never match; the result is a full path *)
P_C17_DirsNeverMatch == \A n \in Names : LET r == ResolveRef(sp, Fs, n) IN r # NotFound => IsRegular(Fs, r)
(* tilde expansion: unknown users and names without a leading tilde are left unchanged *)
P_C17_Tilde ==
  /\ TildeRef("~nouser/x", PW, EuidHome) = "~nouser/x"
  /\ TildeRef("plain", PW, EuidHome) = "plain"
  /\ TildeRef("", PW, EuidHome) = ""
  /\ TildeRef("~", PW, EuidHome) = EuidHome
  /\ TildeRef("~/x", PW, EuidHome) = EuidHome \o "/x"
  /\ TildeRef("~root/x/y", PW, EuidHome) = "/root/x/y"

Emit == PrintT(<<"BEH", ToJson([sp |-> sp, place |-> place,
            resolve |-> [n \in Names |-> IF sp = <<>> THEN "<EMPTY>" ELSE ResolveRef(sp, Fs, n)],
            open |-> [n \in Names |-> OpenTarget(sp, Fs, n, PW, EuidHome, "$R")]])>>)

ASSUME PrintT(<<"TILDE", ToJson([n \in TildeNames |-> TildeRef(n, PW, EuidHome)])>>)
ASSUME PrintT(<<"PW", ToJson(PW)>>)
=============================================================================
