----------------------------- MODULE Trace_Conf ------------------------------
(***************************************************************************)
(* Trace validation (leg B): executions recorded from the real library -   *)
(* random schemas, long random texts (grammar-derived, then mutated),      *)
(* random API call sequences - are checked line by line against the        *)
(* actions of the specification (PRun of Parser.tla, ApiStep of Api.tla).  *)
(* Every event carries its arguments and the observation the driver made   *)
(* after the call; the trace is accepted iff every line is explained.      *)
(* Executions are concatenated, separated by Reset events.                 *)
(***************************************************************************)
EXTENDS Api, Printer, Json, IOUtils, TLC

TraceLog == ndJsonDeserialize(IOEnv.TRACE)

VARIABLES l, root, pcfg, dead, cbn
vars == <<l, root, pcfg, dead, cbn>>

RECURSIVE SeqSet(_)
SeqSet(s) == IF s = <<>> THEN {} ELSE {Head(s)} \cup SeqSet(Tail(s))

(* declarations arrive as JSON: flag / callback lists become sets *)
RECURSIVE DeclOf(_), DeclsOf(_)
DeclOf(j) == [name |-> j.name, type |-> j.type, flags |-> SeqSet(j.flags), def |-> j.def,
              sub |-> DeclsOf(j.sub), cb |-> SeqSet(j.cb), fn |-> j.fn]
DeclsOf(js) == [i \in 1..Len(js) |-> DeclOf(js[i])]

(* does the specification's observation match the logged one?  The annotation is skipped where
   the properties leave it open (AnyV); the default marker is internal and not logged *)
RECURSIVE SecMatch(_, _), ValsMatch(_, _, _)
OptMatch(s, o) ==
  /\ s.n = o.n /\ s.ty = o.ty
  /\ Len(s.v) = Len(o.v)
  /\ ValsMatch(s, o, 1)
  /\ (s.ty \in {"sec", "func"} \/ s.mod = o.mod)
  /\ (s.c = AnyV \/ s.c = o.c)
ValsMatch(s, o, i) ==
  IF i > Len(s.v) THEN TRUE
  ELSE (IF s.ty = "sec" THEN SecMatch(s.v[i], o.v[i]) ELSE s.v[i] = o.v[i]) /\ ValsMatch(s, o, i + 1)
SecMatch(s, o) ==
  /\ s.t = o.t
  /\ Len(s.o) = Len(o.o)
  /\ \A i \in 1..Len(s.o) : OptMatch(s.o[i], o.o[i])

Ev == TraceLog[l]
IsEvent(e) == l <= Len(TraceLog) /\ Ev.e = e /\ l' = l + 1

Init == l = 1 /\ root = MkSec(Null, <<>>) /\ pcfg = PlainCfg /\ dead = FALSE /\ cbn = [cn |-> 0, vn |-> 0, fn |-> 0]

TInit ==
  /\ IsEvent("Init")
  /\ root' = MkSec(Null, InitOpts(DeclsOf(Ev.schema)))
  /\ pcfg' = ParseCfg(Ev.pcfg.nocase, Ev.pcfg.comments, Ev.pcfg.ignore, Ev.pcfg.failParse, Ev.pcfg.failValid, Ev.pcfg.failFunc)
  /\ dead' = FALSE
  /\ cbn' = [cn |-> 0, vn |-> 0, fn |-> 0]
  (* the driver's dump right after cfg_init must be the declared defaults *)
  /\ SecMatch(ObsSec(root'), Ev.obs)

TReset == IsEvent("Reset") /\ UNCHANGED <<root, pcfg, cbn>> /\ dead' = FALSE

(* after an outcome the properties leave open, the rest of that execution is not judged *)
TSkip == dead /\ l <= Len(TraceLog) /\ Ev.e \notin {"Reset", "Init"} /\ l' = l + 1 /\ UNCHANGED <<root, pcfg, dead, cbn>>

(* the callback log of a parse: kind and option of every invocation, the decoded text a value-parsing
   callback saw, the argument vector of a function, the number of values visible to a validation *)
CbMatch(s, o) ==
  /\ Len(s) = Len(o)
  /\ \A i \in 1..Len(s) :
        /\ s[i].k = o[i].k /\ s[i].o = o[i].o
        /\ (s[i].k = "parse" => s[i].v = o[i].v)
        /\ (s[i].k = "func"  => s[i].vals = o[i].argv)
        /\ (s[i].k = "valid" => Len(s[i].vals) = o[i].nvals)

TParse ==
  /\ ~dead /\ IsEvent("Parse")
  /\ LET p == PRun(PInit(root, pcfg, "buf", FALSE, cbn.cn, cbn.vn, cbn.fn), Ev.toks)
     IN /\ p.status \in {"ok", "fail", "unspec"}
        /\ root' = RootOf(p)
        /\ cbn' = [cn |-> p.cn, vn |-> p.vn, fn |-> p.fn]
        (* what a rejected parse leaves behind is not fixed by the properties: the rest of that
           execution is not judged (the driver still checks that it neither crashes nor leaks) *)
        /\ dead' = (p.status # "ok")
        /\ (p.status \in {"ok", "fail"} => (CbMatch(p.cblog, Ev.cb) /\ SeqSet(p.freed) = SeqSet(Ev.freed)))
        /\ (p.status = "ok" => (Ev.ret = 0 /\ SecMatch(ObsSec(RootOf(p)), Ev.obs)
                                /\ Ev.ndiag = p.ndep))
        (* a deprecation notice may precede the error: then the first diagnostic is not the error's *)
        /\ (p.status = "fail" => (Ev.ret = 1 /\ Ev.ndiag >= 1
                                  /\ (p.depr \/ (Ev.dfile = "buf" /\ Ev.dline = p.diags[1].line))))
  /\ UNCHANGED pcfg

TCall ==
  /\ ~dead /\ IsEvent("Call")
  /\ LET r == ApiStep(root, Ev.call, [nocase |-> pcfg.nocase, nv2 |-> 0, fail2 |-> 0, rw2 |-> 0])
     IN /\ root' = r.root
        /\ dead' = (r.ret = "unspec")
        /\ (r.ret = "ok"   => (Ev.ok /\ SecMatch(ObsSec(r.root), Ev.obs)))
        /\ (r.ret = "fail" => (~Ev.ok /\ SecMatch(ObsSec(r.root), Ev.obs)))
  /\ UNCHANGED <<pcfg, cbn>>

(* cfg_print of the whole context: the text the driver captured, line by line *)
TPrint ==
  /\ ~dead /\ IsEvent("Print")
  /\ LET ls == PrintCfg(root, 0)
         (* an annotation the properties leave open (AnyV) makes the text unpredictable: not compared *)
         open == \E i \in 1..Len(ls) : ls[i].kind = "cmt" /\ ls[i].text = Ind(ls[i].ind) \o "/* " \o AnyV \o " */"
     IN open \/ (/\ Len(ls) = Len(Ev.lines)
                 /\ \A i \in 1..Len(ls) : ls[i].text = Ev.lines[i])
  /\ UNCHANGED <<root, pcfg, dead, cbn>>

Next == TInit \/ TReset \/ TSkip \/ TParse \/ TCall \/ TPrint
Spec == Init /\ [][Next]_vars

(* debugging aid: the specification's observation after every consumed line *)
DebugObs == PrintT(<<"DBG", l, ToJson(ObsSec(root))>>)

(* every line consumed = the recorded executions are behaviours of the specification *)
TraceAccepted == TLCGet("stats").diameter - 1 = Len(TraceLog)
=============================================================================
