------------------------------ MODULE PathRes -------------------------------
(***************************************************************************)
(* The option-path mini language (C11), on byte sequences:                 *)
(*     path ::= step ('|' step)*                                           *)
(*     step ::= name | name '=' index | name '=' title | name '=' quoted   *)
(*     quoted ::= "'" ( [^'\] | '\' "'" | '\' '\' )* "'"                   *)
(* OpResolve follows cfg_getopt_secidx / parse_title / cfg_opt_gettsecidx  *)
(* of confuse.c step by step; RefResolve first splits the path by the      *)
(* grammar and then walks the tree one level at a time with the            *)
(* single-level accessors.  MC_Path checks that they agree on every path.  *)
(*                                                                         *)
(* Trees are built from records [name, type, flags, vals] / [title, opts]; *)
(* names and titles are byte sequences; NoTitle marks an untitled section. *)
(***************************************************************************)
EXTENDS Naturals, Sequences, FiniteSets, TLC

cBar == 124  cEq == 61  cQ == 39  cBsl == 92
NoTitle == <<0>>

POpt(name, type, flags, vals) == [name |-> name, type |-> type, flags |-> flags, vals |-> vals]
PSec(title, opts) == [title |-> title, opts |-> opts]

(* result of a resolution: kind "none" | "opt" | "sec"; loc = stepwise location:
   sequence of [oi, ii] leading to the section, plus the option index for "opt" *)
None     == [kind |-> "none", loc |-> <<>>, oi |-> 0]
Unspec   == [kind |-> "unspec", loc |-> <<>>, oi |-> 0]
IsDigits(s) == s # <<>> /\ \A k \in 1..Len(s) : s[k] \in 48..57
(* text that strtol(., base 0) would consume completely without being a plain decimal numeral:
   a sign, a leading zero, an 0x prefix, leading blanks - whether such a spelling addresses a
   section is left open; anything else that is not decimal digits is simply not an index *)
OddNumeral(s) ==
  LET body == IF s # <<>> /\ s[1] \in {43, 45} THEN Tail(s) ELSE s
  IN /\ body # <<>>
     /\ ~IsDigits(s) \/ (Len(s) > 1 /\ s[1] = 48)
     /\ \/ IsDigits(body)
        \/ (Len(body) > 2 /\ body[1] = 48 /\ body[2] \in {120, 88} /\
            \A k \in 3..Len(body) : body[k] \in (48..57) \cup (65..70) \cup (97..102))
        \/ (body[1] \in {32, 9})

LeafIdx(sec, name) ==
  LET S == {i \in 1..Len(sec.opts) : sec.opts[i].name = name}
  IN IF S = {} THEN 0 ELSE CHOOSE i \in S : \A j \in S : i <= j
TitleIdx(vals, t) ==
  LET S == {i \in 1..Len(vals) : vals[i].title = t}
  IN IF S = {} THEN 0 ELSE CHOOSE i \in S : \A j \in S : i <= j

(* first position >= i holding a byte of S, or Len+1 *)
RECURSIVE Cspn(_, _, _)
Cspn(s, i, S) == IF i > Len(s) \/ s[i] \in S THEN i ELSE Cspn(s, i + 1, S)
RECURSIVE Spn(_, _, _)
Spn(s, i, S) == IF i <= Len(s) /\ s[i] \in S THEN Spn(s, i + 1, S) ELSE i

(* decimal value of a short digit string (small: the trees have < 10 instances) *)
RECURSIVE DecVal(_)
DecVal(d) == IF d = <<>> THEN 0 ELSE DecVal(SubSeq(d, 1, Len(d) - 1)) * 10 + (d[Len(d)] - 48)
StripZ(d) == LET k == Spn(d, 1, {48}) IN IF k > Len(d) THEN <<48>> ELSE SubSeq(d, k, Len(d))

(* ------------------------------------------------------------------ *)
(* parse_title: qualifier starting at position i                       *)
(*   -> [ok, title, next]   next = position after the qualifier         *)
(* ------------------------------------------------------------------ *)
RECURSIVE Unquote(_, _, _)
Unquote(s, i, acc) ==
  IF i > Len(s) THEN [ok |-> FALSE, title |-> <<>>, next |-> i]          \* no closing quote
  ELSE IF s[i] = cQ THEN [ok |-> TRUE, title |-> acc, next |-> i + 1]
  ELSE IF s[i] = cBsl THEN
         IF i + 1 <= Len(s) /\ s[i + 1] \in {cQ, cBsl} THEN Unquote(s, i + 2, Append(acc, s[i + 1]))
         ELSE [ok |-> FALSE, title |-> <<>>, next |-> i]                  \* bad escape
  ELSE Unquote(s, i + 1, Append(acc, s[i]))

ParseTitle(s, i) ==
  IF i <= Len(s) /\ s[i] = cQ THEN Unquote(s, i + 1, <<>>)
  ELSE LET e == Cspn(s, i, {cBar})
       IN IF e = i THEN [ok |-> FALSE, title |-> <<>>, next |-> i]
          ELSE [ok |-> TRUE, title |-> SubSeq(s, i, e - 1), next |-> e]

(* ------------------------------------------------------------------ *)
(* operational: cfg_getopt_secidx(cfg, path, index)                    *)
(* wantSec = TRUE for the section getters / removers (index != NULL)   *)
(* ------------------------------------------------------------------ *)
RECURSIVE OpWalk(_, _, _, _, _, _)
OpWalk(sec, loc, s, i, wantSec, last) ==
  (* last = [oi, ii] of the section step resolved last (for wantSec) *)
  IF i > Len(s) THEN
       IF wantSec THEN (IF last.oi = 0 THEN None ELSE [kind |-> "sec", loc |-> loc, oi |-> 0])
       ELSE None                                        \* getopt with an empty last component
  ELSE
  LET e == Cspn(s, i, {cBar, cEq})
  IN IF ~wantSec /\ e > Len(s) THEN
        (* the last component: a leaf lookup in the current section *)
        LET k == LeafIdx(sec, SubSeq(s, i, Len(s)))
        IN IF k = 0 THEN None ELSE [kind |-> "opt", loc |-> loc, oi |-> k]
     ELSE IF e = i THEN None                            \* empty component ("|x", "=x", "a|=b")
     ELSE
     LET name == SubSeq(s, i, e - 1)
         k    == LeafIdx(sec, name)
     IN IF k = 0 \/ sec.opts[k].type # "sec" THEN None
        ELSE
        LET o == sec.opts[k]
            qualified == e <= Len(s) /\ s[e] = cEq
        IN IF ~qualified THEN
              (* unqualified: the first instance *)
              IF o.vals = <<>> THEN None
              ELSE LET nxt == Spn(s, e, {cBar})
                   IN IF nxt > e + 1 THEN Unspec          \* doubled separator: left open
                      ELSE IF nxt > Len(s) /\ e <= Len(s) THEN None      \* stray separator at the end
                      ELSE OpWalk(o.vals[1], Append(loc, [oi |-> k, ii |-> 1]), s, nxt, wantSec, [oi |-> k, ii |-> 1])
           ELSE IF "MULTI" \notin o.flags THEN None     \* qualifier on a single section
           ELSE
           LET pt == ParseTitle(s, e + 1)
           IN IF ~pt.ok THEN None
              ELSE
              LET idx == IF "TITLE" \in o.flags THEN TitleIdx(o.vals, pt.title)
                         ELSE IF ~IsDigits(pt.title) THEN (IF pt.title = <<>> THEN 0 ELSE 999)
                         ELSE IF Len(StripZ(pt.title)) > 3 THEN 0 ELSE DecVal(StripZ(pt.title)) + 1
                  odd == "TITLE" \notin o.flags /\ OddNumeral(pt.title)
                  nxt == Spn(s, pt.next, {cBar})
              IN IF ~wantSec /\ pt.next > Len(s) THEN None   \* an option path cannot end in a qualifier
                 ELSE IF odd THEN Unspec                   \* signs, radix prefixes, blanks in an index: left open
                 ELSE IF idx = 0 \/ idx > Len(o.vals) THEN None
                 ELSE IF pt.next <= Len(s) /\ s[pt.next] # cBar THEN None   \* garbage after a quoted title
                 ELSE IF nxt > pt.next + 1 THEN Unspec
                 ELSE IF nxt > Len(s) /\ pt.next <= Len(s) THEN None        \* stray separator at the end
                 ELSE OpWalk(o.vals[idx], Append(loc, [oi |-> k, ii |-> idx]), s, nxt, wantSec, [oi |-> k, ii |-> idx])

HasDoubledBar(s) == \E k \in 1..(Len(s) - 1) : s[k] = cBar /\ s[k + 1] = cBar

OpResolve(root, s, wantSec) ==
  IF s = <<>> THEN None
  ELSE IF HasDoubledBar(s) THEN Unspec              \* doubled separators: left open by the statement
  ELSE OpWalk(root, <<>>, s, 1, wantSec, [oi |-> 0, ii |-> 0])

(* ------------------------------------------------------------------ *)
(* reference: split by the grammar, then walk one level at a time       *)
(* ------------------------------------------------------------------ *)
(* a step: [name, q]  q = "none" | "plain" | "quoted" | "bad", val = qualifier text *)
RECURSIVE SplitSteps(_, _)
SplitSteps(s, i) ==
  (* -> sequence of steps, or <<[name |-> <<>>, q |-> "bad", val |-> <<>>]>> marker inside *)
  IF i > Len(s) THEN <<>>
  ELSE LET e == Cspn(s, i, {cBar, cEq})
           name == SubSeq(s, i, e - 1)
       IN IF e > Len(s) THEN <<[name |-> name, q |-> "none", val |-> <<>>, sepafter |-> FALSE]>>
          ELSE IF s[e] = cBar THEN
                 <<[name |-> name, q |-> "none", val |-> <<>>, sepafter |-> TRUE]>> \o SplitSteps(s, e + 1)
          ELSE (* '=' *)
             IF e + 1 <= Len(s) /\ s[e + 1] = cQ THEN
                LET u == Unquote(s, e + 2, <<>>)
                IN IF ~u.ok \/ (u.next <= Len(s) /\ s[u.next] # cBar)
                     THEN <<[name |-> name, q |-> "bad", val |-> <<>>, sepafter |-> FALSE]>>
                     ELSE <<[name |-> name, q |-> "quoted", val |-> u.title, sepafter |-> u.next <= Len(s)]>>
                          \o (IF u.next <= Len(s) THEN SplitSteps(s, u.next + 1) ELSE <<>>)
             ELSE LET f == Cspn(s, e + 1, {cBar})
                  IN <<[name |-> name, q |-> "plain", val |-> SubSeq(s, e + 1, f - 1), sepafter |-> f <= Len(s)]>>
                     \o (IF f <= Len(s) THEN SplitSteps(s, f + 1) ELSE <<>>)

(* enter the section named by one step, from section sec *)
RefEnter(sec, st) ==
  LET k == LeafIdx(sec, st.name)
  IN IF st.name = <<>> \/ k = 0 \/ sec.opts[k].type # "sec" THEN [ok |-> "no", k |-> 0, ii |-> 0]
     ELSE LET o == sec.opts[k]
          IN IF st.q = "bad" THEN [ok |-> "no", k |-> 0, ii |-> 0]
             ELSE IF st.q = "none" THEN (IF o.vals = <<>> THEN [ok |-> "no", k |-> 0, ii |-> 0] ELSE [ok |-> "yes", k |-> k, ii |-> 1])
             ELSE IF "MULTI" \notin o.flags THEN [ok |-> "no", k |-> 0, ii |-> 0]
             ELSE IF st.val = <<>> /\ st.q = "plain" THEN [ok |-> "no", k |-> 0, ii |-> 0]
             ELSE IF "TITLE" \in o.flags THEN
                    LET t == TitleIdx(o.vals, st.val)
                    IN IF t = 0 THEN [ok |-> "no", k |-> 0, ii |-> 0] ELSE [ok |-> "yes", k |-> k, ii |-> t]
             ELSE (* an index *)
                  IF st.val = <<>> THEN [ok |-> "no", k |-> 0, ii |-> 0]
                  ELSE IF OddNumeral(st.val) THEN [ok |-> "unspec", k |-> 0, ii |-> 0]
                  ELSE IF ~IsDigits(st.val) THEN [ok |-> "no", k |-> 0, ii |-> 0]
                  ELSE IF Len(st.val) > 3 \/ DecVal(st.val) + 1 > Len(o.vals) THEN [ok |-> "no", k |-> 0, ii |-> 0]
                  ELSE [ok |-> "yes", k |-> k, ii |-> DecVal(st.val) + 1]

RECURSIVE RefWalk(_, _, _, _, _)
RefWalk(sec, loc, steps, j, wantSec) ==
  LET st == steps[j]
      lastStep == j = Len(steps)
  IN IF lastStep /\ ~wantSec THEN
        (* the leaf: a plain name, no qualifier, no separator after it *)
        IF st.q # "none" \/ st.sepafter \/ st.name = <<>> THEN None
        ELSE LET k == LeafIdx(sec, st.name) IN IF k = 0 THEN None ELSE [kind |-> "opt", loc |-> loc, oi |-> k]
     ELSE LET r == RefEnter(sec, st)
          IN IF r.ok = "unspec" THEN Unspec
             ELSE IF r.ok = "no" THEN None
             ELSE LET loc2 == Append(loc, [oi |-> r.k, ii |-> r.ii])
                  IN IF lastStep THEN (IF st.sepafter THEN None ELSE [kind |-> "sec", loc |-> loc2, oi |-> 0])
                     ELSE RefWalk(sec.opts[r.k].vals[r.ii], loc2, steps, j + 1, wantSec)

RefResolve(root, s, wantSec) ==
  IF s = <<>> THEN None
  ELSE IF HasDoubledBar(s) THEN Unspec
  ELSE LET steps == SplitSteps(s, 1)
       IN IF steps = <<>> THEN None
          ELSE IF steps[Len(steps)].sepafter THEN None       \* stray separator at the end
          ELSE RefWalk(root, <<>>, steps, 1, wantSec)

=============================================================================
