---- MODULE MC_Parse_TTrace_1790960732 ----
EXTENDS Sequences, TLCExt, Toolbox, MC_Parse, Naturals, TLC

_expression ==
    LET MC_Parse_TEExpression == INSTANCE MC_Parse_TEExpression
    IN MC_Parse_TEExpression!expression
----

_trace ==
    LET MC_Parse_TETrace == INSTANCE MC_Parse_TETrace
    IN MC_Parse_TETrace!trace
----

_inv ==
    ~(
        TLCGet("level") = Len(_TETrace)
        /\
        pcfg = ([nocase |-> FALSE, comments |-> FALSE, ignore |-> FALSE, failParse |-> 0, failValid |-> 0, failFunc |-> 0])
        /\
        hist = (<<[v |-> "m", k |-> "str", nl |-> 0, nlin |-> 0]>>)
        /\
        ps = ([status |-> "more", depr |-> FALSE, diags |-> <<>>, file |-> "buf", line |-> 1, cblog |-> <<>>, freed |-> <<>>, cn |-> 0, vn |-> 0, fn |-> 0, stack |-> <<[sec |-> [opts |-> <<[name |-> "i", cmt |-> "<NULL>", vals |-> <<"7">>, type |-> "int", cb |-> {}, reset |-> TRUE, flags |-> {}, mod |-> FALSE], [name |-> "sec", cmt |-> "<NULL>", vals |-> <<[opts |-> <<[name |-> "x", cmt |-> "<NULL>", vals |-> <<"5">>, type |-> "int", cb |-> {}, reset |-> TRUE, flags |-> {}, mod |-> FALSE], [name |-> "l", cmt |-> "<NULL>", vals |-> <<"1">>, type |-> "int", cb |-> {}, reset |-> TRUE, flags |-> {"LIST"}, mod |-> FALSE]>>, title |-> "<NULL>"]>>, type |-> "sec", cb |-> {}, reset |-> FALSE, flags |-> {}, mod |-> TRUE], [name |-> "m", cmt |-> "<NULL>", vals |-> <<>>, type |-> "sec", cb |-> {}, reset |-> FALSE, flags |-> {"MULTI"}, mod |-> FALSE], [name |-> "t", cmt |-> "<NULL>", vals |-> <<>>, type |-> "sec", cb |-> {}, reset |-> FALSE, flags |-> {"MULTI", "TITLE"}, mod |-> FALSE]>>, title |-> "<NULL>"], title |-> "<NULL>", st |-> 5, ret |-> [oi |-> 0, ii |-> 0], kv |-> FALSE, oi |-> 3, nvals |-> 0, cmt |-> "<NULL>", stale |-> FALSE, fargs |-> <<>>, sk |-> 0]>>, pc |-> [nocase |-> FALSE, comments |-> FALSE, ignore |-> FALSE, failParse |-> 0, failValid |-> 0, failFunc |-> 0], inc |-> <<>>])
        /\
        root0 = ([opts |-> <<[name |-> "i", cmt |-> "<NULL>", vals |-> <<"7">>, type |-> "int", cb |-> {}, reset |-> TRUE, flags |-> {}, mod |-> FALSE], [name |-> "sec", cmt |-> "<NULL>", vals |-> <<[opts |-> <<[name |-> "x", cmt |-> "<NULL>", vals |-> <<"5">>, type |-> "int", cb |-> {}, reset |-> TRUE, flags |-> {}, mod |-> FALSE], [name |-> "l", cmt |-> "<NULL>", vals |-> <<"1">>, type |-> "int", cb |-> {}, reset |-> TRUE, flags |-> {"LIST"}, mod |-> FALSE]>>, title |-> "<NULL>"]>>, type |-> "sec", cb |-> {}, reset |-> FALSE, flags |-> {}, mod |-> TRUE], [name |-> "m", cmt |-> "<NULL>", vals |-> <<>>, type |-> "sec", cb |-> {}, reset |-> FALSE, flags |-> {"MULTI"}, mod |-> FALSE], [name |-> "t", cmt |-> "<NULL>", vals |-> <<>>, type |-> "sec", cb |-> {}, reset |-> FALSE, flags |-> {"MULTI", "TITLE"}, mod |-> FALSE]>>, title |-> "<NULL>"])
        /\
        done = (<<>>)
        /\
        sid = (2)
    )
----

_init ==
    /\ done = _TETrace[1].done
    /\ root0 = _TETrace[1].root0
    /\ sid = _TETrace[1].sid
    /\ ps = _TETrace[1].ps
    /\ hist = _TETrace[1].hist
    /\ pcfg = _TETrace[1].pcfg
----

_next ==
    /\ \E i,j \in DOMAIN _TETrace:
        /\ \/ /\ j = i + 1
              /\ i = TLCGet("level")
        /\ done  = _TETrace[i].done
        /\ done' = _TETrace[j].done
        /\ root0  = _TETrace[i].root0
        /\ root0' = _TETrace[j].root0
        /\ sid  = _TETrace[i].sid
        /\ sid' = _TETrace[j].sid
        /\ ps  = _TETrace[i].ps
        /\ ps' = _TETrace[j].ps
        /\ hist  = _TETrace[i].hist
        /\ hist' = _TETrace[j].hist
        /\ pcfg  = _TETrace[i].pcfg
        /\ pcfg' = _TETrace[j].pcfg

\* Uncomment the ASSUME below to write the states of the error trace
\* to the given file in Json format. Note that you can pass any tuple
\* to `JsonSerialize`. For example, a sub-sequence of _TETrace.
    \* ASSUME
    \*     LET J == INSTANCE Json
    \*         IN J!JsonSerialize("MC_Parse_TTrace_1790960732.json", _TETrace)

=============================================================================

 Note that you can extract this module `MC_Parse_TEExpression`
  to a dedicated file to reuse `expression` (the module in the 
  dedicated `MC_Parse_TEExpression.tla` file takes precedence 
  over the module `MC_Parse_TEExpression` below).

---- MODULE MC_Parse_TEExpression ----
EXTENDS Sequences, TLCExt, Toolbox, MC_Parse, Naturals, TLC

expression == 
    [
        \* To hide variables of the `MC_Parse` spec from the error trace,
        \* remove the variables below.  The trace will be written in the order
        \* of the fields of this record.
        done |-> done
        ,root0 |-> root0
        ,sid |-> sid
        ,ps |-> ps
        ,hist |-> hist
        ,pcfg |-> pcfg
        
        \* Put additional constant-, state-, and action-level expressions here:
        \* ,_stateNumber |-> _TEPosition
        \* ,_doneUnchanged |-> done = done'
        
        \* Format the `done` variable as Json value.
        \* ,_doneJson |->
        \*     LET J == INSTANCE Json
        \*     IN J!ToJson(done)
        
        \* Lastly, you may build expressions over arbitrary sets of states by
        \* leveraging the _TETrace operator.  For example, this is how to
        \* count the number of times a spec variable changed up to the current
        \* state in the trace.
        \* ,_doneModCount |->
        \*     LET F[s \in DOMAIN _TETrace] ==
        \*         IF s = 1 THEN 0
        \*         ELSE IF _TETrace[s].done # _TETrace[s-1].done
        \*             THEN 1 + F[s-1] ELSE F[s-1]
        \*     IN F[_TEPosition - 1]
    ]

=============================================================================



Parsing and semantic processing can take forever if the trace below is long.
 In this case, it is advised to uncomment the module below to deserialize the
 trace from a generated binary file.

\*
\*---- MODULE MC_Parse_TETrace ----
\*EXTENDS IOUtils, MC_Parse, TLC
\*
\*trace == IODeserialize("MC_Parse_TTrace_1790960732.bin", TRUE)
\*
\*=============================================================================
\*

---- MODULE MC_Parse_TETrace ----
EXTENDS MC_Parse, TLC

trace == 
    <<
    ([pcfg |-> [nocase |-> FALSE, comments |-> FALSE, ignore |-> FALSE, failParse |-> 0, failValid |-> 0, failFunc |-> 0],hist |-> <<>>,ps |-> [status |-> "more", depr |-> FALSE, diags |-> <<>>, file |-> "buf", line |-> 1, cblog |-> <<>>, freed |-> <<>>, cn |-> 0, vn |-> 0, fn |-> 0, stack |-> <<[sec |-> [opts |-> <<[name |-> "i", cmt |-> "<NULL>", vals |-> <<"7">>, type |-> "int", cb |-> {}, reset |-> TRUE, flags |-> {}, mod |-> FALSE], [name |-> "sec", cmt |-> "<NULL>", vals |-> <<[opts |-> <<[name |-> "x", cmt |-> "<NULL>", vals |-> <<"5">>, type |-> "int", cb |-> {}, reset |-> TRUE, flags |-> {}, mod |-> FALSE], [name |-> "l", cmt |-> "<NULL>", vals |-> <<"1">>, type |-> "int", cb |-> {}, reset |-> TRUE, flags |-> {"LIST"}, mod |-> FALSE]>>, title |-> "<NULL>"]>>, type |-> "sec", cb |-> {}, reset |-> FALSE, flags |-> {}, mod |-> TRUE], [name |-> "m", cmt |-> "<NULL>", vals |-> <<>>, type |-> "sec", cb |-> {}, reset |-> FALSE, flags |-> {"MULTI"}, mod |-> FALSE], [name |-> "t", cmt |-> "<NULL>", vals |-> <<>>, type |-> "sec", cb |-> {}, reset |-> FALSE, flags |-> {"MULTI", "TITLE"}, mod |-> FALSE]>>, title |-> "<NULL>"], title |-> "<NULL>", st |-> 0, ret |-> [oi |-> 0, ii |-> 0], kv |-> FALSE, oi |-> 0, nvals |-> 0, cmt |-> "<NULL>", stale |-> FALSE, fargs |-> <<>>, sk |-> 0]>>, pc |-> [nocase |-> FALSE, comments |-> FALSE, ignore |-> FALSE, failParse |-> 0, failValid |-> 0, failFunc |-> 0], inc |-> <<>>],root0 |-> [opts |-> <<[name |-> "i", cmt |-> "<NULL>", vals |-> <<"7">>, type |-> "int", cb |-> {}, reset |-> TRUE, flags |-> {}, mod |-> FALSE], [name |-> "sec", cmt |-> "<NULL>", vals |-> <<[opts |-> <<[name |-> "x", cmt |-> "<NULL>", vals |-> <<"5">>, type |-> "int", cb |-> {}, reset |-> TRUE, flags |-> {}, mod |-> FALSE], [name |-> "l", cmt |-> "<NULL>", vals |-> <<"1">>, type |-> "int", cb |-> {}, reset |-> TRUE, flags |-> {"LIST"}, mod |-> FALSE]>>, title |-> "<NULL>"]>>, type |-> "sec", cb |-> {}, reset |-> FALSE, flags |-> {}, mod |-> TRUE], [name |-> "m", cmt |-> "<NULL>", vals |-> <<>>, type |-> "sec", cb |-> {}, reset |-> FALSE, flags |-> {"MULTI"}, mod |-> FALSE], [name |-> "t", cmt |-> "<NULL>", vals |-> <<>>, type |-> "sec", cb |-> {}, reset |-> FALSE, flags |-> {"MULTI", "TITLE"}, mod |-> FALSE]>>, title |-> "<NULL>"],done |-> <<>>,sid |-> 2]),
    ([pcfg |-> [nocase |-> FALSE, comments |-> FALSE, ignore |-> FALSE, failParse |-> 0, failValid |-> 0, failFunc |-> 0],hist |-> <<[v |-> "m", k |-> "str", nl |-> 0, nlin |-> 0]>>,ps |-> [status |-> "more", depr |-> FALSE, diags |-> <<>>, file |-> "buf", line |-> 1, cblog |-> <<>>, freed |-> <<>>, cn |-> 0, vn |-> 0, fn |-> 0, stack |-> <<[sec |-> [opts |-> <<[name |-> "i", cmt |-> "<NULL>", vals |-> <<"7">>, type |-> "int", cb |-> {}, reset |-> TRUE, flags |-> {}, mod |-> FALSE], [name |-> "sec", cmt |-> "<NULL>", vals |-> <<[opts |-> <<[name |-> "x", cmt |-> "<NULL>", vals |-> <<"5">>, type |-> "int", cb |-> {}, reset |-> TRUE, flags |-> {}, mod |-> FALSE], [name |-> "l", cmt |-> "<NULL>", vals |-> <<"1">>, type |-> "int", cb |-> {}, reset |-> TRUE, flags |-> {"LIST"}, mod |-> FALSE]>>, title |-> "<NULL>"]>>, type |-> "sec", cb |-> {}, reset |-> FALSE, flags |-> {}, mod |-> TRUE], [name |-> "m", cmt |-> "<NULL>", vals |-> <<>>, type |-> "sec", cb |-> {}, reset |-> FALSE, flags |-> {"MULTI"}, mod |-> FALSE], [name |-> "t", cmt |-> "<NULL>", vals |-> <<>>, type |-> "sec", cb |-> {}, reset |-> FALSE, flags |-> {"MULTI", "TITLE"}, mod |-> FALSE]>>, title |-> "<NULL>"], title |-> "<NULL>", st |-> 5, ret |-> [oi |-> 0, ii |-> 0], kv |-> FALSE, oi |-> 3, nvals |-> 0, cmt |-> "<NULL>", stale |-> FALSE, fargs |-> <<>>, sk |-> 0]>>, pc |-> [nocase |-> FALSE, comments |-> FALSE, ignore |-> FALSE, failParse |-> 0, failValid |-> 0, failFunc |-> 0], inc |-> <<>>],root0 |-> [opts |-> <<[name |-> "i", cmt |-> "<NULL>", vals |-> <<"7">>, type |-> "int", cb |-> {}, reset |-> TRUE, flags |-> {}, mod |-> FALSE], [name |-> "sec", cmt |-> "<NULL>", vals |-> <<[opts |-> <<[name |-> "x", cmt |-> "<NULL>", vals |-> <<"5">>, type |-> "int", cb |-> {}, reset |-> TRUE, flags |-> {}, mod |-> FALSE], [name |-> "l", cmt |-> "<NULL>", vals |-> <<"1">>, type |-> "int", cb |-> {}, reset |-> TRUE, flags |-> {"LIST"}, mod |-> FALSE]>>, title |-> "<NULL>"]>>, type |-> "sec", cb |-> {}, reset |-> FALSE, flags |-> {}, mod |-> TRUE], [name |-> "m", cmt |-> "<NULL>", vals |-> <<>>, type |-> "sec", cb |-> {}, reset |-> FALSE, flags |-> {"MULTI"}, mod |-> FALSE], [name |-> "t", cmt |-> "<NULL>", vals |-> <<>>, type |-> "sec", cb |-> {}, reset |-> FALSE, flags |-> {"MULTI", "TITLE"}, mod |-> FALSE]>>, title |-> "<NULL>"],done |-> <<>>,sid |-> 2])
    >>
----


=============================================================================

---- CONFIG MC_Parse_TTrace_1790960732 ----
CONSTANTS
    MaxLen = 5
    MaxParses = 1
    Sids = { 1 , 2 , 3 , 4 , 6 }
    Mode = "plain"

INVARIANT
    _inv

CHECK_DEADLOCK
    \* CHECK_DEADLOCK off because of PROPERTY or INVARIANT above.
    FALSE

INIT
    _init

NEXT
    _next

CONSTANT
    _TETrace <- _trace

ALIAS
    _expression
=============================================================================
\* Generated on Fri Oct 02 17:05:33 UTC 2026