------------------------------- MODULE MC_Lex -------------------------------
(***************************************************************************)
(* Every byte string up to a length bound over one or two representatives  *)
(* of each byte class of the rule set, scanned from a fixed prefix that    *)
(* selects the start condition.  Checked: the rules are total (the default *)
(* rule - echo to stdout - is never taken), every step consumes input,     *)
(* and the rule machine decodes string literals exactly as the             *)
(* declarative reading of C03 says (LexRef).  Each string is exported and  *)
(* replayed into the real scanner.                                         *)
(***************************************************************************)
EXTENDS Lexer, Parser, Json

CONSTANTS MaxLen, Prefix, Alpha

VARIABLES inp
vars == <<inp>>

(* prefixes select the start condition the enumerated bytes are scanned in *)
PrefixBytes ==
  CASE Prefix = "dq"      -> <<115, cEQ, cDQ>>          \* s="
    [] Prefix = "sq"      -> <<115, cEQ, cSQ>>          \* s='
    [] Prefix = "comment" -> <<cSLASH, cSTAR>>
    [] Prefix = "initial" -> <<>>
    [] Prefix = "value"   -> <<115, cEQ>>                         \* s=
    [] Prefix = "dqenv"   -> <<115, cEQ, cDQ, cDOLLAR, cLB>>      \* s="${ ... }"
    [] Prefix = "env"     -> <<115, cEQ, cDOLLAR, cLB>>           \* s=${ ... }
    (* an unquoted reference after a quoted string and a comment were scanned: l={"qq"} /*q*/ s=${ ... } *)
    [] Prefix = "envafter" -> <<108, cEQ, cLB, cDQ, 113, 113, cDQ, cRB, cSP, cSLASH, cSTAR, 113, cSTAR, cSLASH, cSP, 115, cEQ, cDOLLAR, cLB>>
SuffixBytes ==
  CASE Prefix = "dqenv" -> <<cRB, cDQ>>
    [] Prefix = "env"   -> <<cRB>>
    [] Prefix = "envafter" -> <<cRB>>
    [] OTHER            -> <<>>
LitStart == 4     \* position of the first byte of the literal body in Text (dq / sq)

(* class representatives *)
AlphaSet ==
  CASE Alpha = "dq"  -> {cBS, cDQ, cNL, cDOLLAR, cLB, cRB, cCOLON, cMINUS, 49, 51, 55, 56, 120, 110, 97, 86, 85, 113}
    [] Alpha = "octal" -> {cBS, cDQ, 49, 51, 55, 56}                 \* \ " 1 3 7 8
    [] Alpha = "octal6" -> {cBS, cDQ, 49, 51, 56}                    \* \ " 1 3 8 : digit runs of four and more, closed
    [] Alpha = "slashbs" -> {cSLASH, cBS, 113, cSP, cNL}          \* a line comment that ends in a backslash, then more text
    [] Alpha = "slash" -> {cSLASH, cHASH, cSTAR, 113, cSP, cNL, cDQ, cEQ, cBS}   \* (a backslash at the end of a line comment is just a character)
    [] Alpha = "envbody" -> {86, 85, 69, 113, cCOLON, cMINUS, cDOLLAR, cNL}  \* V U E q : - $ and a line end (a reference may span lines)
    [] Alpha = "dqlines" -> {cBS, cDQ, cNL, cSP, 113, cHASH, 13}                  \* (13 = CR: only backslash + LF joins lines)
    [] Alpha = "dqesc" -> {cBS, cDQ, 49, 51, 55, 56, 120, 97, 102, 113}
    [] Alpha = "sq"  -> {cBS, cSQ, cDQ, cNL, cDOLLAR, cLB, cRB, 86, 113, 49}
    [] Alpha = "comment" -> {cSTAR, cSLASH, cNL, cSP, cHASH, 113, cDQ}
    [] Alpha = "initial" -> {cSP, cNL, cHASH, cSLASH, cSTAR, cEQ, cPLUS, cCOMMA, cLB, cRB, cLP, cRP,
                             cDOLLAR, cCR, cBS, 113, 86, cDQ, cSQ, 115, 108, 102}
    [] Alpha = "words" -> {cSP, cNL, cEQ, cPLUS, cCOMMA, cLB, cRB, cLP, cRP, 113, cDQ, 115, 108, 102}

(* environment of the models: V = "w{", E = "" (set but empty), U unset *)
EnvModel == (<<86>> :> <<119, 123>>) @@ (<<69>> :> <<>>)

Text == PrefixBytes \o inp \o SuffixBytes

Init == inp = <<>>
Next == Len(inp) < MaxLen /\ \E b \in AlphaSet : inp' = Append(inp, b)
Spec == Init /\ [][Next]_vars

R == LexAll(Text)

(* C02: no byte is ever copied to standard output, whatever the input *)
P_C02_Total == R.echo = 0

(* C02: the scan ends (LexAll terminates because every step consumes at least one byte;
   checked by bounding the number of steps by the input length + 1) *)
RECURSIVE Steps(_, _, _)
Steps(s, L, n) == IF L.done THEN n ELSE Steps(s, LexStep(s, L), n + 1)
P_C02_Progress == Steps(Text, LexInit(1), 0) <= Len(Text) + 1

(* C03: the literal at the start of the text decodes exactly as the reference says *)
P_C03_RulesMeanRef ==
  Prefix \in {"dq", "sq", "dqenv"} =>
     LET ref == IF Prefix \in {"dq", "dqenv"} THEN RefDq(Text, LitStart, <<>>) ELSE RefSq(Text, LitStart, <<>>)
     IN IF ref.ok
          THEN (Len(R.toks) >= 3 /\ R.toks[3].k = "str" /\ R.toks[3].v = ref.val)
          ELSE (R.err /\ Len(R.toks) = 2)

(* C03: no substitution inside single quotes: the value is the body with only \' \\ and
   backslash-newline treated specially *)
P_C03_NoExpandInSQ ==
  (Prefix = "sq" /\ ~R.err /\ Len(R.toks) >= 3) =>
     \A k \in 1..Len(inp) : (inp[k] = cDOLLAR /\ k < Len(inp) /\ \A m \in 1..k : inp[m] \notin {cSQ, cBS})
                             => R.toks[3].v[k] = cDOLLAR

(* C03: comments contribute nothing to values: in the comment start condition no string
   token is produced from the comment body *)
P_C03_CommentsSilent ==
  Prefix = "comment" =>
     ((R.toks # <<>> /\ R.toks[1].k # "eof") => R.toks[1].k = "cmt")

(* C06: the line counter equals 1 + newlines consumed *)
P_C06_Lines == (~R.err) => R.line = 1 + CountNL(Text)

(* C05: the printer's encoding of any byte string decodes back to it *)
P_C05_StrRoundTrip ==
  Prefix = "initial" =>
     LET enc == <<cDQ>> \o EncodeStr(inp) \o <<cDQ>>
         r   == RefDq(enc, 2, <<>>)
         m   == LexAll(enc)
     IN /\ r.ok /\ r.val = inp /\ r.next = Len(enc) + 1
        /\ ~m.err /\ m.toks[1].k = "str" /\ m.toks[1].v = inp

(* ------------------------------------------------------------------ *)
(* scanner and parser composed: what parsing these bytes must yield    *)
(* under a byte-level schema (names and values are byte sequences)     *)
(*   s : string, l : string list, c { s : string }, f(...) function    *)
(* ------------------------------------------------------------------ *)
ByteSchema == << DStr(<<115>>, <<100>>), DStrList(<<108>>, <<>>),
                 DSec(<<99>>, {}, << DStr(<<115>>, <<100>>) >>), DFunc(<<102>>, "user") >>
ByteRoot == MkSec(Null, InitOpts(ByteSchema))

(* scanner tokens -> parser tokens: newlines before a token from the line numbers *)
PToks(lt) == [k \in 1..Len(lt) |->
                [k |-> lt[k].k, v |-> lt[k].v,
                 nl |-> lt[k].line - (IF k = 1 THEN 1 ELSE lt[k-1].line), nlin |-> 0]]

Parsed ==
  LET p0 == PInit(ByteRoot, PlainCfg, "buf", FALSE, 0, 0, 0)
      p1 == PRun(p0, PToks(R.toks))
  IN IF R.err
       THEN (* the scanner reports the error itself; the parser stops there *)
            [p1 EXCEPT !.status = IF R.unspec THEN "unspec" ELSE "fail"]
       ELSE p1

P_C02_ReturnsVerdict == Parsed.status \in {"ok", "fail", "unspec"}

Emit == PrintT(<<"BEH", ToJson([text |-> Text, status |-> Parsed.status, obs |-> ObsSec(RootOf(Parsed)),
                                lexerr |-> R.err, ntoks |-> Len(R.toks), line |-> R.line,
                                diagline |-> IF Parsed.diags # <<>> THEN Parsed.diags[1].line
                                             ELSE IF R.err THEN R.line ELSE 0])>>)

ASSUME PrintT(<<"SCHEMA", 1, ToJson(ByteSchema)>>)
=============================================================================
