---- MODULE MC_Lex_TTrace_1791010459 ----
EXTENDS Sequences, TLCExt, Toolbox, MC_Lex, Naturals, TLC

_expression ==
    LET MC_Lex_TEExpression == INSTANCE MC_Lex_TEExpression
    IN MC_Lex_TEExpression!expression
----

_trace ==
    LET MC_Lex_TETrace == INSTANCE MC_Lex_TETrace
    IN MC_Lex_TETrace!trace
----

_inv ==
    ~(
        TLCGet("level") = Len(_TETrace)
        /\
        inp = (<<39, 36, 123, 10, 125>>)
    )
----

_init ==
    /\ inp = _TETrace[1].inp
----

_next ==
    /\ \E i,j \in DOMAIN _TETrace:
        /\ \/ /\ j = i + 1
              /\ i = TLCGet("level")
        /\ inp  = _TETrace[i].inp
        /\ inp' = _TETrace[j].inp

\* Uncomment the ASSUME below to write the states of the error trace
\* to the given file in Json format. Note that you can pass any tuple
\* to `JsonSerialize`. For example, a sub-sequence of _TETrace.
    \* ASSUME
    \*     LET J == INSTANCE Json
    \*         IN J!JsonSerialize("MC_Lex_TTrace_1791010459.json", _TETrace)

=============================================================================

 Note that you can extract this module `MC_Lex_TEExpression`
  to a dedicated file to reuse `expression` (the module in the 
  dedicated `MC_Lex_TEExpression.tla` file takes precedence 
  over the module `MC_Lex_TEExpression` below).

---- MODULE MC_Lex_TEExpression ----
EXTENDS Sequences, TLCExt, Toolbox, MC_Lex, Naturals, TLC

expression == 
    [
        \* To hide variables of the `MC_Lex` spec from the error trace,
        \* remove the variables below.  The trace will be written in the order
        \* of the fields of this record.
        inp |-> inp
        
        \* Put additional constant-, state-, and action-level expressions here:
        \* ,_stateNumber |-> _TEPosition
        \* ,_inpUnchanged |-> inp = inp'
        
        \* Format the `inp` variable as Json value.
        \* ,_inpJson |->
        \*     LET J == INSTANCE Json
        \*     IN J!ToJson(inp)
        
        \* Lastly, you may build expressions over arbitrary sets of states by
        \* leveraging the _TETrace operator.  For example, this is how to
        \* count the number of times a spec variable changed up to the current
        \* state in the trace.
        \* ,_inpModCount |->
        \*     LET F[s \in DOMAIN _TETrace] ==
        \*         IF s = 1 THEN 0
        \*         ELSE IF _TETrace[s].inp # _TETrace[s-1].inp
        \*             THEN 1 + F[s-1] ELSE F[s-1]
        \*     IN F[_TEPosition - 1]
    ]

=============================================================================



Parsing and semantic processing can take forever if the trace below is long.
 In this case, it is advised to uncomment the module below to deserialize the
 trace from a generated binary file.

\*
\*---- MODULE MC_Lex_TETrace ----
\*EXTENDS IOUtils, MC_Lex, TLC
\*
\*trace == IODeserialize("MC_Lex_TTrace_1791010459.bin", TRUE)
\*
\*=============================================================================
\*

---- MODULE MC_Lex_TETrace ----
EXTENDS MC_Lex, TLC

trace == 
    <<
    ([inp |-> <<>>]),
    ([inp |-> <<39>>]),
    ([inp |-> <<39, 36>>]),
    ([inp |-> <<39, 36, 123>>]),
    ([inp |-> <<39, 36, 123, 10>>]),
    ([inp |-> <<39, 36, 123, 10, 125>>])
    >>
----


=============================================================================

---- CONFIG MC_Lex_TTrace_1791010459 ----
CONSTANTS
    MaxLen = 5
    Prefix = "sq"
    Alpha = "sq"
    EnvVars <- EnvModel

INVARIANT
    _inv

CHECK_DEADLOCK
    \* CHECK_DEADLOCK off because of PROPERTY or INVARIANT above.
    FALSE

INIT
    _init

NEXT
    _next

CONSTANT
    _TETrace <- _trace

ALIAS
    _expression
=============================================================================
\* Generated on Sat Oct 03 06:55:33 UTC 2026