------------------------------ MODULE Numeral -------------------------------
(***************************************************************************)
(* Text -> long / double / boolean conversion (C04), on byte sequences.    *)
(*                                                                         *)
(* RefInt / RefFloat / RefBool are the reference grammar of the statement. *)
(* OpInt is the operational model of the (repaired) conversion in          *)
(* cfg_setopt: radix guess from the prefix, a digits-only guard, then      *)
(* strtol - with strtol's own leniencies (leading white space, sign, a     *)
(* second "0x") modelled explicitly, so that TLC shows the guard keeps     *)
(* every one of them out (P_C04_IntExact in MC_Num).                       *)
(*                                                                         *)
(* TLC integers are 32 bit: a numeral is never evaluated.  It is           *)
(* normalised to [neg, radix, digs] and the range decision is a comparison *)
(* of digit strings; the harness re-renders the observed long.             *)
(***************************************************************************)
EXTENDS Naturals, Sequences, FiniteSets, TLC

Dig   == 48..57
OctD  == 48..55
BinD  == {48, 49}
HexD  == Dig \cup 65..70 \cup 97..102
cPlus == 43  cMinus == 45  cDot == 46  cX == 120  cB == 98  cZero == 48
Space == {32, 9, 10, 11, 12, 13}

RECURSIVE RunN(_, _, _)
RunN(s, i, S) == IF i <= Len(s) /\ s[i] \in S THEN 1 + RunN(s, i + 1, S) ELSE 0
AtN(s, i) == IF i >= 1 /\ i <= Len(s) THEN s[i] ELSE 0
AllIn(s, S) == \A k \in 1..Len(s) : s[k] \in S
Lower(c) == IF c \in 65..90 THEN c + 32 ELSE c
LowerSeq(s) == [k \in 1..Len(s) |-> Lower(s[k])]

RECURSIVE StripZeros(_)
StripZeros(d) == IF Len(d) > 1 /\ Head(d) = cZero THEN StripZeros(Tail(d)) ELSE d

(* lexicographic comparison of equal-length digit strings: a <= b *)
RECURSIVE LeqDigits(_, _)
LeqDigits(a, b) ==
  IF a = <<>> THEN TRUE
  ELSE IF Lower(Head(a)) < Lower(Head(b)) THEN TRUE
  ELSE IF Lower(Head(a)) > Lower(Head(b)) THEN FALSE
  ELSE LeqDigits(Tail(a), Tail(b))

MaxDec    == <<57,50,50,51,51,55,50,48,51,54,56,53,52,55,55,53,56,48,55>>   \* 9223372036854775807
MaxDecNeg == <<57,50,50,51,51,55,50,48,51,54,56,53,52,55,55,53,56,48,56>>   \* 9223372036854775808

(* does the magnitude written by digs in radix fit a long? *)
InRange(digs, radix, neg) ==
  LET d == StripZeros(digs)
  IN CASE radix = 16 -> Len(d) < 16 \/ (Len(d) = 16 /\ Lower(d[1]) <= 55)        \* <= 7fff ffff ffff ffff
       [] radix = 8  -> Len(d) <= 21                                             \* 21 sevens = 2^63 - 1
       [] radix = 2  -> Len(d) <= 63
       [] radix = 10 -> Len(d) < 19 \/ (Len(d) = 19 /\ LeqDigits(d, IF neg THEN MaxDecNeg ELSE MaxDec))

Ok(radix, neg, digs) == [v |-> "ok", radix |-> radix, neg |-> neg, digs |-> StripZeros(digs)]
BadN    == [v |-> "bad",    radix |-> 0, neg |-> FALSE, digs |-> <<>>]
UnspecN == [v |-> "unspec", radix |-> 0, neg |-> FALSE, digs |-> <<>>]

(* ------------------------------------------------------------------ *)
(* reference: the whole token is a numeral with at least one digit in   *)
(* the radix its prefix selects, within the range of long              *)
(* ------------------------------------------------------------------ *)
Classify(t, radix, neg, digs, DS) ==
  IF digs = <<>> \/ ~AllIn(digs, DS) THEN BadN
  ELSE IF ~InRange(digs, radix, neg) THEN BadN
  ELSE Ok(radix, neg, digs)

RefInt(t) ==
  IF t = <<>> THEN BadN
  ELSE IF t[1] \in {cPlus, cMinus} /\ AtN(t, 2) = cZero /\ Len(t) > 2
         THEN UnspecN                         \* a sign in front of a radix prefix: left open
  ELSE IF t[1] = cZero /\ AtN(t, 2) = cX THEN Classify(t, 16, FALSE, SubSeq(t, 3, Len(t)), HexD)
  ELSE IF t[1] = cZero /\ AtN(t, 2) = cB THEN Classify(t, 2, FALSE, SubSeq(t, 3, Len(t)), BinD)
  ELSE IF t[1] = cZero THEN Classify(t, 8, FALSE, t, OctD)
  ELSE IF t[1] \in {cPlus, cMinus} THEN Classify(t, 10, t[1] = cMinus, Tail(t), Dig)
  ELSE Classify(t, 10, FALSE, t, Dig)

(* ------------------------------------------------------------------ *)
(* operational: strtol(str, &end, base) as the C library defines it     *)
(*   -> [any: some digits were converted, end: index of first unparsed  *)
(*       byte, neg, digs]                                               *)
(* ------------------------------------------------------------------ *)
DigitsOf(base) == IF base = 16 THEN HexD ELSE IF base = 8 THEN OctD ELSE IF base = 2 THEN BinD ELSE Dig
Strtol(s, base) ==
  LET ws  == RunN(s, 1, Space)
      i1  == ws + 1
      sg  == AtN(s, i1) \in {cPlus, cMinus}
      neg == AtN(s, i1) = cMinus
      i2  == IF sg THEN i1 + 1 ELSE i1
      (* base 16 accepts an optional 0x / 0X when a hex digit follows *)
      px  == base = 16 /\ AtN(s, i2) = cZero /\ Lower(AtN(s, i2 + 1)) = cX /\ AtN(s, i2 + 2) \in HexD
      i3  == IF px THEN i2 + 2 ELSE i2
      n   == RunN(s, i3, DigitsOf(base))
  IN [any |-> n > 0, end |-> IF n > 0 THEN i3 + n ELSE 1, neg |-> neg, digs |-> SubSeq(s, i3, i3 + n - 1)]

(* the repaired conversion of cfg_setopt: guard, then strtol, full match, range *)
OpInt(t, guard) ==
  IF t = <<>> THEN BadN
  ELSE LET pre   == IF t[1] = cZero /\ AtN(t, 2) = cX THEN 2
                    ELSE IF t[1] = cZero /\ AtN(t, 2) = cB THEN 2
                    ELSE IF t[1] = cZero THEN 1 ELSE 0
           radix == IF t[1] = cZero /\ AtN(t, 2) = cX THEN 16
                    ELSE IF t[1] = cZero /\ AtN(t, 2) = cB THEN 2
                    ELSE IF t[1] = cZero THEN 8 ELSE 10
           (* "0" alone and the digits after a leading 0 are handed over including the 0 *)
           str   == IF radix = 8 THEN t ELSE SubSeq(t, pre + 1, Len(t))
           sgn   == radix = 10 /\ AtN(str, 1) \in {cPlus, cMinus}
           body  == IF sgn THEN Tail(str) ELSE str
           okg   == ~guard \/ (body # <<>> /\ AllIn(body, DigitsOf(radix)))
           r     == Strtol(str, radix)
       IN IF ~okg THEN BadN
          ELSE IF ~r.any \/ r.end # Len(str) + 1 THEN BadN
          ELSE IF ~InRange(r.digs, radix, r.neg) THEN BadN
          ELSE Ok(radix, r.neg, r.digs)

(* ------------------------------------------------------------------ *)
(* floats: C99 decimal / hexadecimal floating syntax, whole token       *)
(* ------------------------------------------------------------------ *)
cE == 101  cP == 112
(* mantissa DS+ [. DS*] | . DS+ starting at i -> index after it, 0 if none *)
Mantissa(s, i, DS) ==
  LET a == RunN(s, i, DS)
  IN IF a > 0
       THEN (IF AtN(s, i + a) = cDot THEN i + a + 1 + RunN(s, i + a + 1, DS) ELSE i + a)
       ELSE IF AtN(s, i) = cDot /\ RunN(s, i + 1, DS) > 0 THEN i + 1 + RunN(s, i + 1, DS) ELSE 0
(* optional exponent marker m [+-] D+ starting at i -> index after it (i if absent), 0 if malformed *)
Exponent(s, i, m) ==
  IF Lower(AtN(s, i)) # m THEN i
  ELSE LET j == IF AtN(s, i + 1) \in {cPlus, cMinus} THEN i + 2 ELSE i + 1
           n == RunN(s, j, Dig)
       IN IF n = 0 THEN 0 ELSE j + n
ExpDigits(s, i, m) ==      \* [neg, digs] of the exponent starting at i (or empty)
  IF Lower(AtN(s, i)) # m THEN [neg |-> FALSE, digs |-> <<>>]
  ELSE LET j == IF AtN(s, i + 1) \in {cPlus, cMinus} THEN i + 2 ELSE i + 1
       IN [neg |-> AtN(s, i + 1) = cMinus, digs |-> StripZeros(SubSeq(s, j, j + RunN(s, j, Dig) - 1))]

Words(s, ws) == \E w \in ws : LowerSeq(s) = w
InfNan == {<<105,110,102>>, <<110,97,110>>, <<105,110,102,105,110,105,116,121>>}

RefFloat(t) ==
  IF t = <<>> THEN "bad"
  ELSE LET i0  == IF t[1] \in {cPlus, cMinus} THEN 2 ELSE 1
           hex == AtN(t, i0) = cZero /\ Lower(AtN(t, i0 + 1)) = cX
           body == SubSeq(t, i0, Len(t))
       IN IF Words(body, InfNan) THEN "unspec"
          ELSE IF hex THEN
             LET m == Mantissa(t, i0 + 2, HexD)
             IN IF m = 0 THEN "bad"                                     \* "0x" without a hex digit is not a numeral
                ELSE LET e == Exponent(t, m, cP)
                     IN IF e = 0 \/ e # Len(t) + 1 THEN "bad"
                        ELSE LET ed == ExpDigits(t, m, cP)
                             IN IF Len(ed.digs) >= 4 THEN "unspec" ELSE "ok"   \* huge binary exponents: range left to the boundary table
          ELSE
             LET m == Mantissa(t, i0, Dig)
             IN IF m = 0 THEN "bad"
                ELSE LET e == Exponent(t, m, cE)
                     IN IF e = 0 \/ e # Len(t) + 1 THEN "bad"
                        ELSE LET ed == ExpDigits(t, m, cE)
                                 zero == AllIn(SelectSeq(SubSeq(t, i0, m - 1), LAMBDA c : c # cDot), {cZero})
                             IN IF zero \/ Len(ed.digs) <= 2 THEN "ok"            \* |exponent| <= 99: finite and normal
                                ELSE IF ed.neg THEN "unspec"                      \* possible underflow: left open
                                ELSE IF Len(ed.digs) >= 4 THEN "bad"              \* exponent >= 1000: overflow
                                ELSE "unspec"                                     \* 100..999: decided by the boundary table

RefBool(t) ==
  LET w == LowerSeq(t)
  IN IF w \in {<<116,114,117,101>>, <<121,101,115>>, <<111,110>>} THEN "true"
     ELSE IF w \in {<<102,97,108,115,101>>, <<110,111>>, <<111,102,102>>} THEN "false"
     ELSE "bad"

=============================================================================
