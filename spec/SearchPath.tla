----------------------------- MODULE SearchPath ------------------------------
(***************************************************************************)
(* File name resolution (C17): the search path of a context, the           *)
(* regular-file test and tilde expansion (confuse.c: cfg_add_searchpath,   *)
(* cfg_searchpath, cfg_make_fullpath, cfg_tilde_expand; used by cfg_parse  *)
(* and by include()).  Names are strings; the file system is a function    *)
(* from full path names to "file" | "dir" (absent = does not exist); the   *)
(* password database a function from user names to home directories.       *)
(***************************************************************************)
EXTENDS Naturals, Sequences, FiniteSets, TLC

NotFound == "<NOTFOUND>"

Ch(s, i) == SubSeq(s, i, i)
(* "$R" stands for the absolute path of the scratch root the harness works under *)
IsAbs(name) == (Len(name) >= 1 /\ Ch(name, 1) = "/") \/ (Len(name) >= 2 /\ SubSeq(name, 1, 2) = "$R")
Join(dir, name) == dir \o "/" \o name
IsRegular(fs, p) == p \in DOMAIN fs /\ fs[p] = "file"

(* position of the first "/" in s, Len(s)+1 if none *)
RECURSIVE SlashPos(_, _)
SlashPos(s, i) == IF i > Len(s) \/ Ch(s, i) = "/" THEN i ELSE SlashPos(s, i + 1)

(* ---- tilde expansion; euidHome = home directory of the effective user ---- *)
TildeRef(name, pw, euidHome) ==
  IF Len(name) = 0 \/ Ch(name, 1) # "~" THEN name
  ELSE LET sl == SlashPos(name, 1)
           user == SubSeq(name, 2, sl - 1)
           rest == SubSeq(name, sl, Len(name))
       IN IF user = "" THEN euidHome \o rest
          ELSE IF user \in DOMAIN pw THEN pw[user] \o rest
          ELSE name                                   \* unknown user: left unchanged

(* ---- the search path: directories in the order they were added ---- *)
AddRef(sp, dir, pw, euidHome) == Append(sp, TildeRef(dir, pw, euidHome))

(* reference: first directory in add order holding a regular file of that name *)
ResolveRef(sp, fs, name) ==
  IF IsAbs(name) THEN (IF IsRegular(fs, name) THEN name ELSE NotFound)
  ELSE LET S == {i \in 1..Len(sp) : IsRegular(fs, Join(sp[i], name))}
       IN IF S = {} THEN NotFound ELSE Join(sp[CHOOSE i \in S : \A j \in S : i <= j], name)

(* operational: a linked list with prepend-on-add, searched recursively "next first" *)
OpAdd(list, dir, pw, euidHome) == <<TildeRef(dir, pw, euidHome)>> \o list       \* prepend
RECURSIVE OpSearch(_, _, _, _)
OpSearch(list, i, fs, name) ==
  IF i > Len(list) THEN NotFound                        \* p == NULL
  ELSE IF IsAbs(name) THEN (IF IsRegular(fs, name) THEN name ELSE NotFound)
  ELSE LET r == OpSearch(list, i + 1, fs, name)          \* cfg_searchpath(p->next, file) first
       IN IF r # NotFound THEN r
          ELSE IF IsRegular(fs, Join(list[i], name)) THEN Join(list[i], name) ELSE NotFound
ResolveOp(list, fs, name) == OpSearch(list, 1, fs, name)

(* what cfg_parse / include open: through the search path if there is one (the working        *)
(* directory is then not consulted), else after tilde expansion, relative to the working     *)
(* directory cwd                                                                             *)
OpenTarget(sp, fs, name, pw, euidHome, cwd) ==
  IF sp # <<>> THEN ResolveRef(sp, fs, name)
  ELSE LET t == TildeRef(name, pw, euidHome)
           full == IF IsAbs(t) \/ t = "" THEN t ELSE Join(cwd, t)
       IN IF IsRegular(fs, full) THEN full ELSE NotFound

=============================================================================
