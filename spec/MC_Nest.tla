------------------------------ MODULE MC_Nest -------------------------------
(***************************************************************************)
(* Re-entrant parsing (C08, C13, C14): a function callback ("ev") parses a *)
(* named text into a second, live context while the first parse is still   *)
(* running - at top level or inside an included file - and the nested text *)
(* may itself call functions, include files, or fail.  Main texts are      *)
(* enumerated by TLC; expected: the nested parse changes only the second   *)
(* context, sees only its own arguments, and the interrupted parse (with   *)
(* its open include levels, file name and line numbering) goes on as if    *)
(* nothing had happened.                                                   *)
(***************************************************************************)
EXTENDS Parser, Lang, Json

CONSTANTS MaxLen

VARIABLES hist, ps
vars == <<hist, ps>>

Schema ==
  << DInt("i", "7"), DStr("s", "d"), DFunc("fn", "user"), DFunc("ev", "eval"), DFunc("include", "include"),
     DFunc("evs", "evalself") >>

F(n) == "$R/" \o n \o ".conf"
File(toks) == [kind |-> "file", toks |-> toks]
Text(toks) == [kind |-> "text", toks |-> Append(toks, TkEof)]
Inc(n) == <<TkStr("include"), TkP("("), TkStr(F(n)), TkP(")")>>
Ev(n)  == <<TkStr("ev"), TkP("("), TkStr(n), TkP(")")>>
NL(t) == [t EXCEPT !.nl = 1]

FS ==
  (F("f1")  :> File(<<TkStr("i"), TkP("="), TkStr("1")>>)) @@
  (* files that call ev in the middle: a nested parse that fails inside its own include / succeeds / calls a function *)
  (F("fb")  :> File(Ev("tB") \o <<NL(TkStr("s")), TkP("="), TkStr("x")>>)) @@
  (F("fd")  :> File(Ev("tD") \o <<NL(TkStr("s")), TkP("="), TkStr("y")>>)) @@
  (F("fc")  :> File(<<TkStr("i"), TkP("="), TkStr("2")>> \o Ev("tC") \o <<NL(TkStr("fn")), TkP("("), TkStr("z"), TkP(")")>>)) @@
  (* a file that makes the context parse a text into itself, then goes on *)
  (F("fs")  :> File(<<TkStr("evs"), TkP("("), TkStr("tA"), TkP(")"), NL(TkStr("i")), TkP("="), TkStr("3")>>)) @@
  ("tA" :> Text(<<TkStr("s"), TkP("="), TkStr("a")>>)) @@
  ("tB" :> Text(<<TkStr("i"), TkP("="), TkStr("5")>> \o Inc("none"))) @@
  ("tC" :> Text(<<TkStr("fn"), TkP("("), TkStr("p"), TkP(","), TkStr("q"), TkP(")")>>)) @@
  ("tD" :> Text(Inc("f1") \o <<NL(TkStr("s")), TkP("="), TkStr("n")>>)) @@
  ("tE" :> Text(<<TkStr("s"), TkP("="), TkP("=")>>))

Names == {F("f1"), F("fb"), F("fd"), F("fc"), F("fs"), "tA", "tB", "tC", "tD", "tE"}

Alphabet ==
  {TkStr("include"), TkStr("ev"), TkStr("evs"), TkStr("fn"), TkP("("), TkP(")"), TkP(","), TkStr("i"), TkP("="), TkStr("1")}
  \cup {TkStr(n) : n \in Names}

Root0 == MkSec(Null, InitOpts(Schema))
Ps0 == [WithFs(PInit(Root0, PlainCfg, "buf", FALSE, 0, 0, 0), FS) EXCEPT !.aux = <<Root0>>]

Init == hist = <<>> /\ ps = Ps0
Next == /\ ps.status = "more" /\ Len(hist) < MaxLen
        /\ \E t \in Alphabet : hist' = Append(hist, t) /\ ps' = PStepI(ps, t)
Spec == Init /\ [][Next]_vars

Fin == IF ps.status = "more" THEN PStepI(ps, TkEof) ELSE ps

(* the same text where every named text is empty: what the first context must end up with *)
FSquiet == [n \in DOMAIN FS |-> IF FS[n].kind = "text" THEN Text(<<>>) ELSE FS[n]]
Quiet == PRun([Ps0 EXCEPT !.fs = FSquiet], Append(hist, TkEof))

(* C08: a parse into another live context, started in the middle of this one, leaves no trace here *)
(* (texts in which the context is made to parse into itself are outside these three statements) *)
NoSelf == \A i \in 1..Len(hist) : hist[i].v \notin {"evs", F("fs")}
P_C08_NestedLeavesNoTrace ==
  (NoSelf /\ ps.status = "more" /\ Fin.status \in {"ok", "fail"}) =>
     /\ Quiet.status = Fin.status
     /\ RootOf(Quiet) = RootOf(Fin)
     /\ Quiet.diags = Fin.diags
(* C13: after a nested parse - also one that failed inside an include of its own - the interrupted source goes on *)
P_C13_GoesOn ==
  (ps.status = "more" /\ ps.inc = <<>>) => ps.file = "buf"
(* C14: every function callback sees exactly its own arguments: the log of the first context's  *)
(* own calls is the log of the quiet run, with the nested calls inserted                        *)
OwnCalls(log) == SelectSeq(log, LAMBDA e : ~(e.o = "fn" /\ e.vals = <<"p", "q">>))
P_C14_OwnArguments ==
  (NoSelf /\ ps.status = "more" /\ Fin.status \in {"ok", "fail"}) => OwnCalls(Fin.cblog) = OwnCalls(Quiet.cblog)

Expected(p) ==
  [status |-> p.status, obs |-> ObsSec(RootOf(p)),
   ndiag |-> IF p.diags = <<>> THEN "0" ELSE "some",
   ndep  |-> p.ndep,
   diag1 |-> IF p.diags = <<>> THEN [file |-> Null, line |-> 0] ELSE p.diags[1],
   cblog |-> p.cblog, freed |-> p.freed,
   aux |-> ObsSec(p.aux[1]), auxlog |-> p.auxlog]

Emit == PrintT(<<"BEH", ToJson([sid |-> 1, pcfg |-> PlainCfg,
                                parses |-> <<[toks |-> IF ps.status = "more" THEN Append(hist, TkEof) ELSE hist,
                                              exp |-> Expected(Fin)]>>])>>)

ASSUME PrintT(<<"SCHEMA", 1, ToJson(Schema)>>)
ASSUME PrintT(<<"FS", ToJson(FS)>>)
=============================================================================
