------------------------------- MODULE Store -------------------------------
(***************************************************************************)
(* Abstract value store of libConfuse: declarations (the schema), section  *)
(* instances, option instances, and the pure update operators every        *)
(* public entry point is built from (confuse.c: cfg_init_defaults,         *)
(* cfg_dupopt_array, cfg_setopt, cfg_addval, cfg_opt_getval,               *)
(* cfg_free_value, cfg_opt_rmnsec ...).                                    *)
(*                                                                         *)
(* Values are strings: integers are canonical decimal numerals, floats     *)
(* canonical decimal fractions, booleans "true"/"false", user pointers     *)
(* "ptr<n>".  Null stands for the C NULL pointer, AnyV for "unspecified by  *)
(* the property" (never compared by the conformance harness).              *)
(***************************************************************************)
EXTENDS Naturals, Integers, Sequences, FiniteSets, TLC

Null == "<NULL>"
AnyV == "<ANY>"
Bad  == "<BAD>"

(* A declaration (cfg_opt_t as written by the caller):                     *)
(*   [name, type, flags, def, sub, cb, fn]                                 *)
(*   type  \in {"int","float","str","bool","ptr","sec","func"}            *)
(*   flags \subseteq {"LIST","MULTI","TITLE","NODEFAULT","NO_TITLE_DUPES", *)
(*                    "NOCASE","KEYSTRVAL","DEPRECATED","DROP"}            *)
(*   def   the value sequence the option holds after initialisation        *)
(*   sub   declarations of a section's options                             *)
(*   cb    \subseteq {"parse","valid","valid2","print"} callbacks declared *)
(*   fn    "user" | "include" | "" (function options)                      *)
Decl(name, type, flags, def, sub, cb, fn) ==
  [name |-> name, type |-> type, flags |-> flags, def |-> def, sub |-> sub, cb |-> cb, fn |-> fn]

DInt(n, d)        == Decl(n, "int",   {},       <<d>>, <<>>, {}, "")
DFloat(n, d)      == Decl(n, "float", {},       <<d>>, <<>>, {}, "")
DBool(n, d)       == Decl(n, "bool",  {},       <<d>>, <<>>, {}, "")
DStr(n, d)        == Decl(n, "str",   {},       <<d>>, <<>>, {}, "")
DIntList(n, d)    == Decl(n, "int",   {"LIST"}, d,     <<>>, {}, "")
DStrList(n, d)    == Decl(n, "str",   {"LIST"}, d,     <<>>, {}, "")
DFloatList(n, d)  == Decl(n, "float", {"LIST"}, d,     <<>>, {}, "")
DBoolList(n, d)   == Decl(n, "bool",  {"LIST"}, d,     <<>>, {}, "")
DSec(n, fl, sub)  == Decl(n, "sec",   fl,       <<>>,  sub,  {}, "")
DFunc(n, fn)      == Decl(n, "func",  {},       <<>>,  <<>>, {}, fn)
DPtr(n)           == Decl(n, "ptr",   {},       <<>>,  <<>>, {"parse"}, "")
DPtrList(n)       == Decl(n, "ptr",   {"LIST"}, <<>>,  <<>>, {"parse"}, "")
(* CFG_SIMPLE_INT/FLOAT/BOOL/STR: the value lives in a variable of the caller.  "SIMPLE" is a  *)
(* model-level marker (not a CFGF_ flag); init is what the caller's variable holds when the   *)
(* context is created - the library never applies a default to it.                           *)
DSimple(n, ty, init) == Decl(n, ty, {"SIMPLE"}, <<init>>, <<>>, {}, "")
WithFlags(d, fl)  == [d EXCEPT !.flags = @ \cup fl]
WithCb(d, cb)     == [d EXCEPT !.cb = @ \cup cb]

(* Case folding for CFGF_NOCASE: a finite map is enough for the name pools  *)
(* the models use.                                                         *)
LowerMap == [x \in {"A","B","I","S","L","SEC","M","T","X"} |->
               CASE x = "A" -> "a" [] x = "B" -> "b" [] x = "I" -> "i" [] x = "S" -> "s"
                 [] x = "L" -> "l" [] x = "SEC" -> "sec" [] x = "M" -> "m" [] x = "T" -> "t"
                 [] x = "X" -> "x"]
Lower(s) == IF s \in DOMAIN LowerMap THEN LowerMap[s] ELSE s
SameName(a, b, nocase) == IF nocase THEN Lower(a) = Lower(b) ELSE a = b

(* ------------------------------------------------------------------ *)
(* Section and option instances                                        *)
(* ------------------------------------------------------------------ *)
(* a section instance (cfg_t): title, options, print filter (0 = none) *)
MkSec(title, opts) == [title |-> title, opts |-> opts, pff |-> 0]

RECURSIVE InitOpts(_)
InitOpt(d) ==
  [name  |-> d.name, type |-> d.type, flags |-> d.flags, cb |-> d.cb,
   sub   |-> d.sub, fn |-> d.fn,
   vals  |-> IF d.type = "sec"
               THEN IF "MULTI" \in d.flags THEN <<>>
                    ELSE <<MkSec(Null, InitOpts(d.sub))>>
               ELSE IF "NODEFAULT" \in d.flags /\ "SIMPLE" \notin d.flags THEN <<>> ELSE d.def,
   (* CFGF_RESET: the option still holds its pristine default *)
   reset |-> /\ d.type # "sec"
             /\ "NODEFAULT" \notin d.flags
             /\ "SIMPLE" \notin d.flags
             /\ ~("LIST" \in d.flags /\ d.def = <<>>),
   (* CFGF_MODIFIED *)
   mod   |-> d.type = "sec" /\ "MULTI" \notin d.flags,
   cmt   |-> Null]
InitOpts(decls) == [i \in 1..Len(decls) |-> InitOpt(decls[i])]

NewSection(decl, title) == MkSec(title, InitOpts(decl.sub))

(* an option created on the fly in a free-form key=value section (cfg_addopt) *)
FreeKey(name) ==
  [name |-> name, type |-> "str", flags |-> {}, cb |-> {}, sub |-> <<>>, fn |-> "",
   vals |-> <<>>, reset |-> FALSE, mod |-> FALSE, cmt |-> Null]

(* index of the option called name in opts, 0 if none *)
FindOpt(opts, name, nocase) ==
  LET S == {i \in 1..Len(opts) : SameName(opts[i].name, name, nocase)}
  IN IF S = {} THEN 0 ELSE CHOOSE i \in S : \A j \in S : i <= j

IsList(o)  == "LIST" \in o.flags
IsMulti(o) == "MULTI" \in o.flags

(* index of the section instance titled t, 0 if none *)
FindTitle(vals, t, nocase) ==
  LET S == {i \in 1..Len(vals) : vals[i].title # Null /\ SameName(vals[i].title, t, nocase)}
  IN IF S = {} THEN 0 ELSE CHOOSE i \in S : \A j \in S : i <= j

(* cfg_free_value: values dropped; the annotation goes with them unless     *)
(* the option is still pristine                                            *)
FreeValue(o) == [o EXCEPT !.vals = <<>>, !.cmt = IF o.reset THEN @ ELSE Null]

(* ------------------------------------------------------------------ *)
(* Text -> value conversion at the token level.  The byte-level        *)
(* meaning of numerals is Numeral.tla's business (C04); here a finite   *)
(* table over the value-token pool is enough.                           *)
(* ------------------------------------------------------------------ *)
ValTab ==
  [t \in {"0","1","2","3","5","7","010","0x10","0b11","-4","1.5","2.25","-0.5",
          "true","false","yes","off","On","x","y","abc","a b","", "9x", "1e2"} |->
     CASE t = "0"     -> [int |-> "0",  float |-> "0",    bool |-> Bad]
       [] t = "1"     -> [int |-> "1",  float |-> "1",    bool |-> Bad]
       [] t = "2"     -> [int |-> "2",  float |-> "2",    bool |-> Bad]
       [] t = "3"     -> [int |-> "3",  float |-> "3",    bool |-> Bad]
       [] t = "5"     -> [int |-> "5",  float |-> "5",    bool |-> Bad]
       [] t = "7"     -> [int |-> "7",  float |-> "7",    bool |-> Bad]
       [] t = "010"   -> [int |-> "8",  float |-> "10",   bool |-> Bad]
       [] t = "0x10"  -> [int |-> "16", float |-> "16",   bool |-> Bad]
       [] t = "0b11"  -> [int |-> "3",  float |-> Bad,    bool |-> Bad]
       [] t = "-4"    -> [int |-> "-4", float |-> "-4",   bool |-> Bad]
       [] t = "1.5"   -> [int |-> Bad,  float |-> "1.5",  bool |-> Bad]
       [] t = "2.25"  -> [int |-> Bad,  float |-> "2.25", bool |-> Bad]
       [] t = "-0.5"  -> [int |-> Bad,  float |-> "-0.5", bool |-> Bad]
       [] t = "1e2"   -> [int |-> Bad,  float |-> "100",  bool |-> Bad]
       [] t = "true"  -> [int |-> Bad,  float |-> Bad,    bool |-> "true"]
       [] t = "false" -> [int |-> Bad,  float |-> Bad,    bool |-> "false"]
       [] t = "yes"   -> [int |-> Bad,  float |-> Bad,    bool |-> "true"]
       [] t = "off"   -> [int |-> Bad,  float |-> Bad,    bool |-> "false"]
       [] t = "On"    -> [int |-> Bad,  float |-> Bad,    bool |-> "true"]
       [] OTHER       -> [int |-> Bad,  float |-> Bad,    bool |-> Bad]]

(* cn = number of value-parsing callback invocations so far (this one included) *)
CbValue(type, text, cn) ==
  CASE type = "int"   -> ToString(1000 + cn)
    [] type = "float" -> ToString(cn) \o ".5"
    [] type = "bool"  -> IF cn % 2 = 1 THEN "true" ELSE "false"
    [] type = "str"   -> "cb" \o ToString(cn) \o ":" \o text
    [] type = "ptr"   -> "ptr" \o ToString(cn)
    [] OTHER          -> Bad

(* canonical numerals (what the printer writes) convert to themselves *)
CanonInts == {ToString(n) : n \in 0..120} \cup {"-" \o ToString(n) : n \in 1..20} \cup {"1000", "7777"}
             \cup {"-9223372036854775808", "9223372036854775807"}      \* the ends of the range of long
F6Map == [v \in {"0","1","2","3","5","7","8","10","16","100","-4","1.5","2.25","-0.5","7777.5"} |->
            CASE v = "1.5" -> "1.500000" [] v = "2.25" -> "2.250000" [] v = "-0.5" -> "-0.500000"
              [] v = "7777.5" -> "7777.500000" [] OTHER -> v \o ".000000"]
(* other canonical decimals (e.g. what a value-parsing callback produced): pad to six places *)
F6(v) == IF v \in DOMAIN F6Map THEN F6Map[v]
         ELSE LET dots == {i \in 1..Len(v) : SubSeq(v, i, i) = "."}
              IN IF dots = {} THEN v \o ".000000"
                 ELSE LET p == CHOOSE i \in dots : TRUE
                      IN v \o SubSeq("000000", 1, 6 - (Len(v) - p))
UnF6(t) == LET S == {v \in DOMAIN F6Map : F6Map[v] = t} IN IF S = {} THEN Bad ELSE CHOOSE v \in S : TRUE

Conv(type, text) ==
  CASE type = "str"   -> text
    [] type = "int"   -> IF text \in DOMAIN ValTab THEN ValTab[text].int
                         ELSE IF text \in CanonInts THEN text ELSE Bad
    [] type = "float" -> IF text \in DOMAIN ValTab THEN ValTab[text].float ELSE UnF6(text)
    [] type = "bool"  -> IF text \in DOMAIN ValTab THEN ValTab[text].bool ELSE Bad
    [] OTHER          -> Bad

(* cfg_setopt for a non-section option once the value v is known:           *)
(* pristine defaults are dropped first, lists grow, scalars are overwritten *)
StoreValue(o, v) ==
  LET o1 == IF o.reset THEN [FreeValue(o) EXCEPT !.reset = FALSE] ELSE o
  IN [o1 EXCEPT !.vals = IF o1.vals = <<>> \/ IsList(o1) THEN Append(@, v) ELSE [@ EXCEPT ![1] = v],
                !.mod = TRUE]

(* ------------------------------------------------------------------ *)
(* Observation: what the public getters show (the projection Obs of     *)
(* DESIGN.md).  The harness dumps exactly this tree from the real code. *)
(* ------------------------------------------------------------------ *)
RECURSIVE ObsSec(_)
ObsOpt(o) ==
  [n |-> o.name, ty |-> o.type,
   v |-> IF o.type = "sec" THEN [i \in 1..Len(o.vals) |-> ObsSec(o.vals[i])] ELSE o.vals,
   mod |-> o.mod, reset |-> o.reset, c |-> o.cmt]
ObsSec(s) == [t |-> s.title, o |-> [i \in 1..Len(s.opts) |-> ObsOpt(s.opts[i])]]

=============================================================================
