-------------------------------- MODULE Api ---------------------------------
(***************************************************************************)
(* The setter / list / section API of libConfuse as operations on the      *)
(* abstract store (confuse.c: cfg_opt_getval, cfg_opt_setn*, cfg_setn*,    *)
(* cfg_setlist, cfg_addlist, cfg_opt_setmulti, cfg_setopt,                 *)
(* cfg_opt_setcomment, cfg_addtsec, cfg_opt_rmnsec, cfg_opt_rmtsec).       *)
(*                                                                         *)
(* A call is a record [op, sp, name, idx, val, vals]:                      *)
(*   sp    path to the section the call is made on: sequence of            *)
(*         [oi, ii] (option index, instance index), <<>> = the root        *)
(*   name  option name looked up in that section                           *)
(* ApiStep(root, c, env) returns [root, ret, freed, cblog, nv2] where ret   *)
(* is "ok" | "fail" | "unspec" (outcome left open by the properties).      *)
(***************************************************************************)
EXTENDS Parser

Call(op, sp, name, idx, val, vals) ==
  [op |-> op, sp |-> sp, name |-> name, idx |-> idx, val |-> val, vals |-> vals]

(* ---- navigation ---- *)
RECURSIVE SecOk(_, _), SecAt(_, _)
SecOk(sec, sp) ==
  IF sp = <<>> THEN TRUE
  ELSE LET h == Head(sp)
       IN IF h.oi > Len(sec.opts) \/ sec.opts[h.oi].type # "sec" \/ h.ii > Len(sec.opts[h.oi].vals)
            THEN FALSE
            ELSE SecOk(sec.opts[h.oi].vals[h.ii], Tail(sp))
SecAt(sec, sp) ==
  IF sp = <<>> THEN sec
  ELSE LET h == Head(sp) IN SecAt(sec.opts[h.oi].vals[h.ii], Tail(sp))

RECURSIVE PutSec(_, _, _)
PutSec(sec, sp, new) ==
  IF sp = <<>> THEN new
  ELSE LET h == Head(sp)
       IN [sec EXCEPT !.opts[h.oi].vals[h.ii] = PutSec(@, Tail(sp), new)]

TypeOfOp(op) ==
  CASE op = "setint" -> "int" [] op = "setfloat" -> "float"
    [] op = "setbool" -> "bool" [] op = "setstr" -> "str" [] OTHER -> "?"

Res(root, ret, freed, cblog, nv2) ==
  [root |-> root, ret |-> ret, freed |-> freed, cblog |-> cblog, nv2 |-> nv2]

(* cfg_opt_getval + store of one converted value v at index idx (0-based) *)
SetIndexed(o, idx, v) ==
  IF idx # 0 /\ ~IsList(o) /\ ~IsMulti(o) THEN [ok |-> "fail", o |-> o]
  ELSE IF o.reset /\ IsList(o) /\ o.vals # <<>>
         (* an indexed write into a list that still holds its pristine defaults:   *)
         (* the statements leave open whether the defaults survive                *)
         THEN [ok |-> "unspec", o |-> o]
  ELSE LET o1 == IF o.reset THEN [FreeValue(o) EXCEPT !.reset = FALSE] ELSE o
           n  == Len(o1.vals)
       IN IF idx > n THEN [ok |-> "unspec", o |-> o]      \* beyond the end: append or refuse
          ELSE IF idx = n THEN [ok |-> "ok", o |-> [o1 EXCEPT !.vals = Append(@, v), !.mod = TRUE]]
          ELSE [ok |-> "ok", o |-> [o1 EXCEPT !.vals[idx + 1] = v, !.mod = TRUE]]

(* values appended one after the other at the end (cfg_addlist_internal) *)
RECURSIVE AppendAll(_, _)
AppendAll(o, vs) ==
  IF vs = <<>> THEN o
  ELSE AppendAll([o EXCEPT !.vals = Append(@, Head(vs)), !.mod = TRUE], Tail(vs))

(* cfg_opt_setmulti: all texts converted or nothing changes *)
RECURSIVE ConvAll(_, _)
ConvAll(type, texts) ==
  IF texts = <<>> THEN [ok |-> TRUE, vals |-> <<>>]
  ELSE LET v == Conv(type, Head(texts))
           r == ConvAll(type, Tail(texts))
       IN IF v = Bad \/ ~r.ok THEN [ok |-> FALSE, vals |-> <<>>]
          ELSE [ok |-> TRUE, vals |-> <<v>> \o r.vals]

(* fail2: which invocation of the pre-set validation callback vetoes (0 = none),
   rw2: which one rewrites the value; nv2: invocations so far *)
ApiStep(root, c, env) ==
  LET sec == IF SecOk(root, c.sp) THEN SecAt(root, c.sp) ELSE root
      NoChange(ret) == Res(root, ret, <<>>, <<>>, env.nv2)
  IN IF ~SecOk(root, c.sp) THEN NoChange("fail")
     ELSE
     LET idx == FindOpt(sec.opts, c.name, env.nocase)
     IN IF idx = 0 THEN
          (* unknown name: every call fails without effect *)
          NoChange("fail")
        ELSE
        LET o == sec.opts[idx]
            Put(o2) == PutSec(root, c.sp, [sec EXCEPT !.opts[idx] = o2])
        IN CASE c.op \in {"setint", "setfloat", "setbool", "setstr"} ->
                  (* by-name setters run the pre-set validation callback first *)
                  LET has2  == "valid2" \in o.cb /\ c.op # "setbool"
                      nv    == IF has2 THEN env.nv2 + 1 ELSE env.nv2
                      veto  == has2 /\ env.fail2 = nv
                      rewr  == has2 /\ env.rw2 = nv /\ c.op \in {"setint", "setfloat"}
                      v     == IF rewr THEN (IF c.op = "setint" THEN "7777" ELSE "7777.5") ELSE c.val
                      log   == IF has2 THEN <<[k |-> "valid2", o |-> o.name, v |-> c.val, vals |-> <<>>]>> ELSE <<>>
                  IN IF veto THEN Res(root, "fail", <<>>, log, nv)
                     ELSE IF o.type # TypeOfOp(c.op) THEN Res(root, "fail", <<>>, log, nv)
                     ELSE LET r == SetIndexed(o, c.idx, v)
                          IN IF r.ok = "ok" THEN Res(Put(r.o), "ok", <<>>, log, nv)
                             ELSE Res(root, r.ok, <<>>, log, nv)
             [] c.op = "setlist" ->
                  IF ~IsList(o) THEN NoChange("fail")
                  ELSE IF o.type \notin {"int", "float", "bool", "str"} THEN NoChange("unspec")
                  ELSE IF c.vals = <<>> THEN NoChange("unspec")
                  ELSE Res(Put(AppendAll([FreeValue(o) EXCEPT !.reset = FALSE], c.vals)), "ok", <<>>, <<>>, env.nv2)
             [] c.op = "addlist" ->
                  IF ~IsList(o) THEN NoChange("fail")
                  ELSE IF o.type \notin {"int", "float", "bool", "str"} THEN NoChange("unspec")
                  ELSE IF c.vals = <<>> THEN NoChange("unspec")
                  (* appending appends to whatever the option holds, defaults included *)
                  ELSE Res(Put(AppendAll([o EXCEPT !.reset = FALSE], c.vals)), "ok", <<>>, <<>>, env.nv2)
             [] c.op = "setmulti" ->
                  IF c.vals = <<>> THEN NoChange("fail")
                  ELSE IF o.type \in {"sec", "func", "ptr"} \/ "parse" \in o.cb THEN NoChange("unspec")
                  ELSE IF ~IsList(o) /\ Len(c.vals) > 1 THEN NoChange("unspec")
                  ELSE LET vs == ConvAll(o.type, c.vals)
                       IN IF ~vs.ok THEN NoChange("fail")
                          ELSE Res(Put([o EXCEPT !.vals = vs.vals, !.reset = FALSE, !.mod = TRUE]),
                                   "ok", <<>>, <<>>, env.nv2)
             [] c.op = "setopt" ->
                  IF o.type \in {"sec", "func", "ptr"} \/ "parse" \in o.cb THEN NoChange("unspec")
                  ELSE LET v == Conv(o.type, c.val)
                       IN IF v = Bad THEN NoChange("fail")
                          ELSE Res(Put(StoreValue(o, v)), "ok", <<>>, <<>>, env.nv2)
             [] c.op = "setcomment" ->
                  IF c.val = Null THEN NoChange("fail")
                  ELSE Res(Put([o EXCEPT !.cmt = c.val, !.mod = TRUE]), "ok", <<>>, <<>>, env.nv2)
             [] c.op = "addtsec" ->
                  IF o.type # "sec" THEN NoChange("fail")
                  (* a single section that was removed is created again, with its declared defaults *)
                  ELSE IF o.flags \cap {"MULTI", "TITLE"} = {} /\ c.val = Null /\ o.vals = <<>>
                    THEN Res(Put([o EXCEPT !.vals = <<NewSection(o, Null)>>, !.mod = TRUE]), "ok", <<>>, <<>>, env.nv2)
                  ELSE IF ~({"MULTI", "TITLE"} \subseteq o.flags) THEN NoChange("unspec")
                  ELSE IF FindTitle(o.vals, c.val, "NOCASE" \in o.flags) # 0 THEN NoChange("fail")
                  ELSE Res(Put([o EXCEPT !.vals = Append(@, NewSection(o, c.val)), !.mod = TRUE]),
                           "ok", <<>>, <<>>, env.nv2)
             [] c.op = "rmnsec" ->
                  IF o.type # "sec" \/ c.idx >= Len(o.vals) THEN NoChange("fail")
                  ELSE Res(Put([o EXCEPT !.vals = SubSeq(@, 1, c.idx) \o SubSeq(@, c.idx + 2, Len(@))]),
                           "ok", PtrsOfSec(o.vals[c.idx + 1]), <<>>, env.nv2)
             [] c.op = "rmtsec" ->
                  IF o.type # "sec" \/ "TITLE" \notin o.flags THEN NoChange("fail")
                  ELSE LET h == FindTitle(o.vals, c.val, "NOCASE" \in o.flags)
                       IN IF h = 0 THEN NoChange("fail")
                          ELSE Res(Put([o EXCEPT !.vals = SubSeq(@, 1, h - 1) \o SubSeq(@, h + 1, Len(@))]),
                                   "ok", PtrsOfSec(o.vals[h]), <<>>, env.nv2)
             [] OTHER -> NoChange("unspec")

=============================================================================
