------------------------------ MODULE MC_Scan -------------------------------
(***************************************************************************)
(* C08: the process-global scanner.  Two contexts share one scanner whose  *)
(* state (start condition, open include levels) survives from call to      *)
(* call.  Histories of events - accepted parse, parse aborted inside "..., *)
(* '..., a comment, on a bad escape, inside an included file, by the       *)
(* include depth limit, free + re-create, switching contexts - are         *)
(* enumerated; after each history the same probe texts are parsed.         *)
(* Scanner and parser are composed at byte level (Lexer.tla + Parser.tla). *)
(***************************************************************************)
EXTENDS Lexer, Parser, Json

CONSTANTS MaxEvents, Repaired

VARIABLES ctx, scan, hist, probes
vars == <<ctx, scan, hist, probes>>

(* strings -> bytes, for the characters the event texts use *)
Ord == [c \in {"a","b","c","d","e","f","i","k","l","n","p","s","u","x","y","0","1","2","4","=","\"","'","/","*"," ","\\","(",")","$","R","{","}",",","q","+","\n"} |->
          CASE c = "a" -> 97 [] c = "b" -> 98 [] c = "c" -> 99 [] c = "d" -> 100 [] c = "e" -> 101 [] c = "f" -> 102
            [] c = "i" -> 105 [] c = "k" -> 107 [] c = "l" -> 108 [] c = "n" -> 110 [] c = "p" -> 112 [] c = "s" -> 115
            [] c = "u" -> 117 [] c = "x" -> 120 [] c = "y" -> 121 [] c = "0" -> 48 [] c = "1" -> 49 [] c = "2" -> 50
            [] c = "4" -> 52 [] c = "=" -> 61 [] c = "\"" -> 34 [] c = "'" -> 39 [] c = "/" -> 47 [] c = "*" -> 42
            [] c = " " -> 32 [] c = "\\" -> 92 [] c = "(" -> 40 [] c = ")" -> 41 [] c = "$" -> 36 [] c = "R" -> 82
            [] c = "{" -> 123 [] c = "}" -> 125 [] c = "," -> 44 [] c = "q" -> 113 [] c = "+" -> 43 [] c = "\n" -> 10]
B(str) == [i \in 1..Len(str) |-> Ord[SubSeq(str, i, i)]]

ByteSchema == << DStr(B("s"), B("d")), DStrList(B("l"), <<B("q")>>),
                 DSec(B("c"), {}, << DStr(B("s"), B("d")) >>), DFunc(B("include"), "include") >>
Fresh == MkSec(Null, InitOpts(ByteSchema))

PToks(lt) == [k \in 1..Len(lt) |->
                [k |-> lt[k].k, v |-> lt[k].v,
                 nl |-> lt[k].line - (IF k = 1 THEN 1 ELSE lt[k-1].line), nlin |-> 0]]
LexToks(text) == LET r == LexAll(text) IN SubSeq(PToks(r.toks), 1, Len(r.toks) - (IF r.toks # <<>> /\ r.toks[Len(r.toks)].k = "eof" THEN 1 ELSE 0))

(* files: name -> tokens (lexed from their byte text) *)
FSb ==
  (B("$R/f1") :> [kind |-> "file", toks |-> LexToks(B("s=inc"))]) @@
  (B("$R/fe") :> [kind |-> "file", toks |-> LexToks(B("s=x l = = "))]) @@
  (B("$R/fs") :> [kind |-> "file", toks |-> LexToks(B("include(\"$R/fs\")"))])

Events ==
  [ok     |-> B("s=a\n\n"),
   dq     |-> B("s=\"abc"),
   sq     |-> B("l={x,'abc"),
   cmt    |-> B("s=b /* x"),
   esc    |-> B("s=\"\\400\""),
   incbad |-> B("include(\"$R/fe\")"),
   deep   |-> B("include(\"$R/fs\")"),
   incok  |-> B("include(\"$R/f1\") l={y}"),
   (* an assignment to the list that stops before its first value; appending to what the list holds *)
   lbad   |-> B("l=)"),
   app    |-> B("l+={y}")]
EventNames == {"ok", "dq", "sq", "cmt", "esc", "incbad", "deep", "incok", "lbad", "app"}
ProbeTexts == << B("s=p1"), B("include(\"$R/f1\")"), B("l={x,y} c{s=2}"), B("s=\"u\" /* c */ l={a}"),
                B("\nl = = ") >>       \* rejected on its second line

NoEnv == [x \in {} |-> <<>>]
Clean == [start |-> "INITIAL", inc |-> 0]

(* one parse of text into root, by a scanner in state sc *)
RunText(root, sc, text) ==
  LET lx == LexRun(text, LexInitAt(sc.start, Repaired))
      p0 == WithFs(PInit(root, PlainCfg, "buf", FALSE, 0, 0, 0), FSb)
      (* open include levels left behind by earlier parses count against the limit (unrepaired scanner) *)
      p0b == [p0 EXCEPT !.inc = [k \in 1..sc.inc |-> [file |-> "stale", line |-> 0]]]
      p1 == PRun(p0b, PToks(lx.toks))
      st == IF p1.status = "fail" THEN "fail"
            ELSE IF lx.err THEN (IF lx.unspec THEN "unspec" ELSE "fail")
            ELSE p1.status
  IN [status |-> st, root |-> RootOf(p1),
      (* line of the first diagnostic when the parser (not the scanner) rejects; 0 = not predicted *)
      dline |-> IF p1.status = "fail" /\ ~lx.err /\ p1.diags # <<>> /\ Len(p1.inc) = Len(p0b.inc) THEN p1.diags[1].line ELSE 0,
      scan |-> IF Repaired THEN Clean
               ELSE [start |-> lx.st, inc |-> IF p1.status = "fail" THEN Len(p1.inc) ELSE sc.inc]]

Init == /\ ctx = [c \in {1, 2} |-> Fresh]
        /\ scan = Clean
        /\ hist = <<>>
        /\ probes = <<>>

DoEvent(c, e) ==
  /\ Len(hist) < MaxEvents /\ probes = <<>>
  /\ LET r == RunText(ctx[c], scan, Events[e])
     IN /\ ctx' = [ctx EXCEPT ![c] = r.root]
        /\ scan' = r.scan
        /\ hist' = Append(hist, [c |-> c, e |-> e, text |-> Events[e], status |-> r.status, dline |-> r.dline, obs |-> ObsSec(r.root)])
  /\ UNCHANGED probes

FreeInit(c) ==
  /\ Len(hist) < MaxEvents /\ probes = <<>>
  /\ ctx' = [ctx EXCEPT ![c] = Fresh]
  /\ scan' = IF Repaired THEN Clean ELSE [scan EXCEPT !.start = "INITIAL"]   \* cfg_free of a root destroys the scanner
  /\ hist' = Append(hist, [c |-> c, e |-> "free", text |-> <<>>, status |-> "ok", dline |-> 0, obs |-> ObsSec(Fresh)])
  /\ UNCHANGED probes

(* the probes: parsed one after the other into context 1, then into context 2 *)
RECURSIVE RunProbes(_, _, _, _)
RunProbes(root, sc, k, acc) ==
  IF k > Len(ProbeTexts) THEN acc
  ELSE LET r == RunText(root, sc, ProbeTexts[k])
       IN RunProbes(r.root, r.scan, k + 1, Append(acc, [text |-> ProbeTexts[k], status |-> r.status, dline |-> r.dline, obs |-> ObsSec(r.root)]))
Probe ==
  /\ probes = <<>> /\ hist # <<>>
  /\ probes' = RunProbes(Fresh, scan, 1, <<>>)
  /\ UNCHANGED <<ctx, scan, hist>>

Next == (\E c \in {1, 2} : (\E e \in EventNames : DoEvent(c, e)) \/ FreeInit(c)) \/ Probe
Spec == Init /\ [][Next]_vars

(* C08: at every call boundary the scanner is clean *)
P_C08_Clean == scan = Clean
(* C08: the probes, parsed into a fresh context after any history, give what they give in a fresh process *)
FreshProbes == RunProbes(Fresh, Clean, 1, <<>>)
P_C08_HistoryFree == probes # <<>> => probes = FreshProbes
(* C08: an event on one context leaves the other context as it was *)
P_C08_NoCrossTalk ==
  [][ \A c \in {1, 2} : (hist' # hist /\ hist'[Len(hist')].c # c) => ctx'[c] = ctx[c] ]_vars

Emit == (probes # <<>>) => PrintT(<<"BEH", ToJson([hist |-> hist, probes |-> probes])>>)
ASSUME PrintT(<<"SCHEMA", 1, ToJson(ByteSchema)>>)
ASSUME PrintT(<<"FS", ToJson([names |-> <<B("$R/f1"), B("$R/fe"), B("$R/fs")>>,
                             texts |-> <<B("s=inc"), B("s=x l = = "), B("include(\"$R/fs\")")>>])>>)
=============================================================================
