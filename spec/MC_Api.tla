------------------------------- MODULE MC_Api -------------------------------
(***************************************************************************)
(* Exhaustive exploration of API call sequences on one context (C09, C10,  *)
(* C07 ledger).  The state graph is explored over the abstract store       *)
(* (VIEW hides the history), and every transition (reachable state x call) *)
(* is exported once, prefixed by a shortest call path to its pre-state, for *)
(* replay into the real library.                                           *)
(***************************************************************************)
EXTENDS Api, Printer, Json

CONSTANTS MaxCalls, Pre, Fail2, Rw2, Sch

VARIABLES root, depth, nv2, hist, last

vars == <<root, depth, nv2, hist, last>>
View == <<root, depth, nv2>>

(* Sch = 1: every option kind; Sch = 2: the same layout with printable kinds *)
(* only (the pointer and the function are replaced), for the print/parse     *)
(* round trip of C05                                                        *)
(* Sch = 3: options whose value lives in the caller's variables (the CFG_SIMPLE macros)      *)
ApiSchema ==
  IF Sch = 3 THEN
  << DSimple("n", "int", "0"), DSimple("w", "str", Null), DSimple("v", "bool", "false"),
     DSimple("d", "float", "0"), DInt("i", "7"),
     DSec("sec", {}, << DSimple("k", "int", "0"), DStr("s", "d") >>) >>
  ELSE IF Sch = 2 THEN
  << DInt("i", "7"), DStr("s", "d"), DIntList("l", <<"1","2">>), DStrList("sl", <<>>),
     DBool("b", "false"), DFloat("f", "1.5"),
     DSec("t", {"MULTI","TITLE"}, << DInt("x", "5"), DStr("p", "z"), DStrList("tl", <<"u">>) >>),
     DSec("m", {"MULTI"}, << DInt("x", "5") >>),
     DSec("sec", {}, << DInt("x", "5"), DIntList("l", <<>>) >>),
     DInt("vi", "1"), DStr("vs", "q"),
     DBool("fn", "true"), DFloat("vf", "1.5"),
     DSec("box", {"TITLE"}, << DInt("x", "5") >>) >>
  ELSE
  << DInt("i", "7"), DStr("s", "d"), DIntList("l", <<"1","2">>), DStrList("sl", <<>>),
     DBool("b", "false"), DFloat("f", "1.5"),
     DSec("t", {"MULTI","TITLE"}, << DInt("x", "5"), DPtr("p"), DStrList("tl", <<"u">>) >>),
     DSec("m", {"MULTI"}, << DInt("x", "5") >>),
     DSec("sec", {}, << DInt("x", "5"), DIntList("l", <<>>) >>),
     WithCb(DInt("vi", "1"), {"valid2"}), WithCb(DStr("vs", "q"), {"valid2"}),
     DFunc("fn", "user"), WithCb(DFloat("vf", "1.5"), {"valid2"}),
     DSec("box", {"TITLE"}, << DInt("x", "5") >>) >>

(* optional text parsed before the calls (Pre = 1): populates sections and pointers *)
PreToks ==
  << TkStr("t"), TkStr("a"), TkP("{"), TkStr("p"), TkP("="), TkStr("v"), TkP("}"),
     TkStr("t"), TkStr("b"), TkP("{"), TkStr("x"), TkP("="), TkStr("1"), TkP("}"),
     TkStr("m"), TkP("{"), TkP("}"),
     TkStr("l"), TkP("="), TkP("{"), TkStr("5"), TkP(","), TkStr("7"), TkP("}"),
     Tk("cmt", "note", 0), TkStr("s"), TkP("="), TkStr("x"), TkEof >>

InitRoot == MkSec(Null, InitOpts(ApiSchema))
PreRun == PRun(PInit(InitRoot, ParseCfg(FALSE, TRUE, FALSE, 0, 0, 0), "buf", FALSE, 0, 0, 0), PreToks)

Env == [nocase |-> FALSE, nv2 |-> nv2, fail2 |-> Fail2, rw2 |-> Rw2]

T1 == <<[oi |-> 7, ii |-> 1]>>      \* first instance of section t
SEC == <<[oi |-> 9, ii |-> 1]>>     \* the single section

Calls ==
  { Call("setint", <<>>, "i", 0, "3", <<>>),   Call("setint", <<>>, "i", 1, "3", <<>>),
    Call("setint", <<>>, "l", 0, "3", <<>>),   Call("setint", <<>>, "l", 1, "4", <<>>),
    Call("setint", <<>>, "l", 2, "9", <<>>),
    Call("setint", <<>>, "s", 0, "3", <<>>),   Call("setint", <<>>, "zz", 0, "3", <<>>),
    Call("setint", <<>>, "t", 0, "3", <<>>),
    Call("setstr", <<>>, "s", 0, "v", <<>>),   Call("setstr", <<>>, "sl", 0, "w", <<>>),
    Call("setstr", <<>>, "sl", 1, "y", <<>>),  Call("setstr", <<>>, "i", 0, "v", <<>>),
    Call("setstr", <<>>, "s", 0, Null, <<>>),
    Call("setbool", <<>>, "b", 0, "true", <<>>), Call("setfloat", <<>>, "f", 0, "2.25", <<>>),
    Call("setfloat", <<>>, "b", 0, "2.25", <<>>),
    Call("setlist", <<>>, "l", 0, "", <<"3","4">>), Call("setlist", <<>>, "sl", 0, "", <<"a">>),
    Call("setlist", <<>>, "i", 0, "", <<"3">>),
    Call("addlist", <<>>, "l", 0, "", <<"5">>),     Call("addlist", <<>>, "sl", 0, "", <<"w","x">>),
    Call("addlist", <<>>, "s", 0, "", <<"w">>),
    Call("setmulti", <<>>, "l", 0, "", <<"3","0x10">>), Call("setmulti", <<>>, "l", 0, "", <<"3","x">>),
    Call("setmulti", <<>>, "l", 0, "", <<"x","3">>),    Call("setmulti", <<>>, "sl", 0, "", <<"a","b">>),
    Call("setmulti", <<>>, "i", 0, "", <<"5">>),        Call("setmulti", <<>>, "i", 0, "", <<"x">>),
    Call("setmulti", <<>>, "zz", 0, "", <<"5">>),
    Call("setmulti", <<>>, "s", 0, "", <<"w">>),        \* (s carries an annotation after the pre-text)
    Call("setopt", <<>>, "i", 0, "5", <<>>),    Call("setopt", <<>>, "i", 0, "x", <<>>),
    Call("setopt", <<>>, "l", 0, "7", <<>>),    Call("setopt", <<>>, "l", 0, "x", <<>>),
    Call("setopt", <<>>, "b", 0, "maybe", <<>>),
    Call("setcomment", <<>>, "i", 0, "note", <<>>), Call("setcomment", <<>>, "l", 0, "n2", <<>>),
    Call("setcomment", <<>>, "i", 0, "notes", <<>>),     \* an annotation that extends the previous one
    Call("addlist", <<>>, "l", 0, "", <<"-4">>),          \* a negative number through the variadic list calls
    Call("rmtsec", <<>>, "t", 0, "", <<>>),               \* the empty title: a prefix of every title, equal to none
    Call("addtsec", <<>>, "t", 0, "a", <<>>),   Call("addtsec", <<>>, "t", 0, "c", <<>>),
    Call("addtsec", <<>>, "i", 0, "a", <<>>),   Call("addtsec", <<>>, "zz", 0, "a", <<>>),
    Call("addtsec", <<>>, "i", 0, "5", <<>>),   Call("addtsec", <<>>, "s", 0, "a", <<>>),
    Call("rmnsec", <<>>, "t", 0, "", <<>>),     Call("rmnsec", <<>>, "t", 1, "", <<>>),
    Call("rmnsec", <<>>, "t", 5, "", <<>>),     Call("rmnsec", <<>>, "m", 0, "", <<>>),
    Call("rmnsec", <<>>, "i", 0, "", <<>>),
    Call("rmtsec", <<>>, "t", 0, "a", <<>>),    Call("rmtsec", <<>>, "t", 0, "zz", <<>>),
    Call("rmtsec", <<>>, "m", 0, "a", <<>>),
    Call("rmtsec", <<>>, "t", 0, "A", <<>>),    Call("addtsec", <<>>, "t", 0, "A", <<>>),
    (* the single section removed, and created again through the API *)
    Call("rmnsec", <<>>, "sec", 0, "", <<>>),   Call("addtsec", <<>>, "sec", 0, Null, <<>>),
    Call("setint", <<[oi |-> 14, ii |-> 1]>>, "x", 0, "6", <<>>),
    Call("setint", T1, "x", 0, "8", <<>>),      Call("addlist", T1, "tl", 0, "", <<"z">>),
    Call("setint", SEC, "x", 0, "6", <<>>),     Call("addlist", SEC, "l", 0, "", <<"1">>),
    (* list calls on sections, numerals that are a radix prefix without digits *)
    Call("setlist", <<>>, "m", 0, "", <<"3">>),  Call("addlist", <<>>, "t", 0, "", <<"3">>),
    Call("setlist", <<>>, "sec", 0, "", <<"3">>),
    Call("setmulti", <<>>, "l", 0, "", <<"3", "0x">>), Call("setopt", <<>>, "i", 0, "0x", <<>>),
    Call("setopt", <<>>, "l", 0, "0b", <<>>),
    (* an out-of-range numeral in a bulk set (refused), so that later calls run after a range error *)
    Call("setmulti", <<>>, "i", 0, "", <<"99999999999999999999">>),
    Call("setstr", <<>>, "vs", 0, Null, <<>>),          \* a NULL string is validated like any other value
    Call("setint", <<>>, "vi", 0, "4", <<>>),   Call("setstr", <<>>, "vs", 0, "r", <<>>),
    Call("setfloat", <<>>, "vf", 0, "2.25", <<>>) }
  \cup (IF Sch = 2
          THEN { Call("setstr", <<>>, "s", 0, "a\"b\\c", <<>>), Call("setstr", <<>>, "s", 0, "${HOME}", <<>>),
                 Call("setstr", <<>>, "s", 0, "", <<>>), Call("setstr", <<>>, "s", 0, "pre-${U", <<>>),
                 Call("setstr", <<>>, "s", 0, "a$b$", <<>>),
                 Call("addtsec", <<>>, "t", 0, "q\"r", <<>>), Call("addtsec", <<>>, "t", 0, "two words", <<>>),
                 Call("setstr", T1, "p", 0, "# /* x */", <<>>),
                 (* the ends of the integer range are written and read back like any other number *)
                 Call("setint", <<>>, "i", 0, "-9223372036854775808", <<>>),
                 Call("setint", <<>>, "l", 0, "9223372036854775807", <<>>) }
          ELSE {})

SEC3 == <<[oi |-> 6, ii |-> 1]>>
Calls3 ==
  { Call("setint", <<>>, "n", 0, "3", <<>>),    Call("setint", <<>>, "n", 1, "3", <<>>),
    Call("setint", <<>>, "n", 0, "5", <<>>),    Call("setint", <<>>, "w", 0, "3", <<>>),
    Call("setstr", <<>>, "w", 0, "v", <<>>),    Call("setstr", <<>>, "w", 0, "a\"b", <<>>),
    Call("setstr", <<>>, "w", 0, "", <<>>),     Call("setstr", <<>>, "n", 0, "v", <<>>),
    Call("setstr", <<>>, "w", 1, "v", <<>>),
    Call("setbool", <<>>, "v", 0, "true", <<>>), Call("setfloat", <<>>, "d", 0, "2.25", <<>>),
    Call("setfloat", <<>>, "v", 0, "2.25", <<>>),
    Call("setmulti", <<>>, "n", 0, "", <<"5">>), Call("setmulti", <<>>, "n", 0, "", <<"x">>),
    Call("setmulti", <<>>, "w", 0, "", <<"abc">>),
    Call("setopt", <<>>, "n", 0, "0x10", <<>>),  Call("setopt", <<>>, "n", 0, "x", <<>>),
    Call("setopt", <<>>, "v", 0, "yes", <<>>),   Call("setopt", <<>>, "v", 0, "maybe", <<>>),
    Call("setopt", <<>>, "w", 0, "a b", <<>>),   Call("setopt", <<>>, "d", 0, "1.5", <<>>),
    Call("setcomment", <<>>, "n", 0, "note", <<>>),
    Call("setlist", <<>>, "n", 0, "", <<"3">>),  Call("addlist", <<>>, "w", 0, "", <<"w">>),
    Call("setint", <<>>, "i", 0, "3", <<>>),
    Call("setint", SEC3, "k", 0, "6", <<>>),     Call("setstr", SEC3, "s", 0, "v", <<>>) }

(* a NULL string has no spelling in the configuration language: not part of the round trip *)
(* nor has the absence of a single (non-multi) section: a fresh context always has its instance *)
CallsHere == IF Sch = 3 THEN Calls3
             ELSE IF Sch = 2 THEN {c \in Calls : c.val # Null /\ ~(c.op = "rmnsec" /\ c.name = "sec")}
             ELSE Calls

Init ==
  /\ root = IF Pre = 1 THEN RootOf(PreRun) ELSE InitRoot
  /\ depth = 0
  /\ nv2 = 0
  /\ hist = <<>>
  /\ last = [call |-> Call("none", <<>>, "", 0, "", <<>>), pre |-> InitRoot, ret |-> "ok"]

Expected(r) == [ret |-> r.ret, obs |-> ObsSec(r.root), freed |-> r.freed, cblog |-> r.cblog]

Do(c) ==
  /\ depth < MaxCalls
  /\ last.ret # "unspec"
  /\ LET r == ApiStep(root, c, Env)
     IN /\ root' = r.root
        /\ nv2' = r.nv2
        /\ depth' = depth + 1
        /\ hist' = Append(hist, [call |-> c, exp |-> Expected(r)])
        /\ last' = [call |-> c, pre |-> root, ret |-> r.ret]

Next == \E c \in CallsHere : Do(c)
Spec == Init /\ [][Next]_vars

(* ------------------------------------------------------------------ *)
(* properties of the specification (action properties: every           *)
(* transition of the state graph is checked)                           *)
(* ------------------------------------------------------------------ *)
HasOpt(r, c) == SecOk(r, c.sp) /\ FindOpt(SecAt(r, c.sp).opts, c.name, FALSE) # 0
OptOf(r, c) == LET s == SecAt(r, c.sp) IN s.opts[FindOpt(s.opts, c.name, FALSE)]

IsPrefixSeq(a, b) == Len(a) <= Len(b) /\ SubSeq(b, 1, Len(a)) = a

(* C09: appending keeps what the option held (defaults included) as a prefix *)
P_C09_AppendKeeps ==
  [][ (last'.call.op = "addlist" /\ last'.ret = "ok") =>
        LET a == OptOf(root, last'.call)  b == OptOf(root', last'.call)
        IN b.vals = a.vals \o last'.call.vals ]_vars

(* C09: removing a section keeps the order of the rest *)
P_C09_RemoveKeepsOrder ==
  [][ (last'.call.op \in {"rmnsec", "rmtsec"} /\ last'.ret = "ok") =>
        LET a == OptOf(root, last'.call).vals  b == OptOf(root', last'.call).vals
        IN /\ Len(b) = Len(a) - 1
           /\ \E k \in 1..Len(a) : b = SubSeq(a, 1, k - 1) \o SubSeq(a, k + 1, Len(a)) ]_vars

(* C09: titles of a titled multi section stay unique *)
TitlesUnique(o) == \A i, j \in 1..Len(o.vals) : i # j => o.vals[i].title # o.vals[j].title
P_C09_TitlesUnique == Sch = 3 \/ TitlesUnique(root.opts[7])

(* C09 / C10: a failing call has no effect on anything the getters show,    *)
(* nor on the default / modified markers and the annotation                *)
P_C10_FailNoEffect ==
  [][ last'.ret = "fail" => root' = root ]_vars

(* C09: a successful setter marks the option modified *)
P_C09_Modified ==
  [][ (last'.ret = "ok" /\ last'.call.op \in {"setint","setfloat","setbool","setstr","setlist","addlist","setmulti","setopt","setcomment"}) =>
        OptOf(root', last'.call).mod ]_vars

(* wrong type, index beyond a scalar, unknown name fail *)
P_C09_BadCallsFail ==
  [][ LET c == last'.call
      IN (c.op \in {"setint","setfloat","setbool","setstr"} /\
          (~HasOpt(root, c) \/
           (HasOpt(root, c) /\ LET o == OptOf(root, c)
                               IN o.type # TypeOfOp(c.op) \/ (c.idx # 0 /\ ~IsList(o) /\ ~IsMulti(o)))))
         => last'.ret = "fail" ]_vars

(* C07 ledger: what a call releases was stored before and is gone after *)
RECURSIVE S2S(_)
S2S(s) == IF s = <<>> THEN {} ELSE {Head(s)} \cup S2S(Tail(s))
P_C07_Ledger ==
  [][ LET fr == hist'[Len(hist')].exp.freed
      IN /\ S2S(fr) \subseteq S2S(PtrsOfSec(root))
         /\ S2S(fr) \cap S2S(PtrsOfSec(root')) = {}
         /\ S2S(PtrsOfSec(root')) \cup S2S(fr) = S2S(PtrsOfSec(root)) ]_vars

(* C05: the printed configuration, read as the tokens the scanner will see, *)
(* is accepted under the same schema and denotes the same configuration    *)
(* (sections, titles, list lengths, values; floats to printed precision;   *)
(* annotations when annotation support is on)                              *)
P_C05_RoundTrip ==
  Sch \in {2, 3} =>
    LET q == PRun(PInit(InitRoot, ParseCfg(FALSE, TRUE, FALSE, 0, 0, 0), "buf", FALSE, 0, 0, 0), PrintToks(root))
        q2 == PRun(PInit(InitRoot, ParseCfg(FALSE, TRUE, FALSE, 0, 0, 0), "buf", FALSE, 0, 0, 0), PrintToks(RootOf(q)))
    IN /\ q.status = "ok"
       /\ RtSecV(RootOf(q)) = RtSecV(root)
       (* annotations come back too, and printing the re-parsed configuration reproduces the text, *)
       (* unless a commented-out scalar was read back as the annotation of its successor           *)
       /\ ~AnyUnset(root) => /\ RtSec(RootOf(q)) = RtSec(root)
                             /\ PrintCfg(RootOf(q), 0) = PrintCfg(root, 0)
       (* in every case a further parse-and-print cycle leaves the text unchanged *)
       /\ q2.status = "ok"
       /\ PrintCfg(RootOf(q2), 0) = PrintCfg(RootOf(q), 0)

(* export of transitions for leg A *)
(* the full prediction is exported for the last call only: every earlier   *)
(* call of the path is the last call of its own behaviour                  *)
EmitT == PrintT(<<"BEH", ToJson([pre |-> Pre, fail2 |-> Fail2, rw2 |-> Rw2,
            printed |-> IF Sch \in {2, 3} THEN [i \in 1..Len(PrintCfg(root', 0)) |-> PrintCfg(root', 0)[i].text] ELSE <<>>,
            calls |-> [i \in 1..Len(hist') |->
                         IF i = Len(hist') THEN hist'[i]
                         ELSE [call |-> hist'[i].call, exp |-> [ret |-> hist'[i].exp.ret]]]])>>)

ASSUME PrintT(<<"SCHEMA", 1, ToJson(ApiSchema)>>)
ASSUME PrintT(<<"PRETOKS", ToJson(PreToks)>>)

=============================================================================
