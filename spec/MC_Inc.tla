------------------------------- MODULE MC_Inc -------------------------------
(***************************************************************************)
(* Include files (C13) at token level: main texts enumerated by TLC over   *)
(* an alphabet containing the include function, file names of a fixed file *)
(* system (plain files, a file including another, a file re-opening a      *)
(* section, a failing file, a self-including file, chains up to the depth  *)
(* limit + 1, a directory, a missing name) and ordinary items.             *)
(***************************************************************************)
EXTENDS Parser, Lang, Json

CONSTANTS MaxLen, NlBudget

VARIABLES hist, ps
vars == <<hist, ps>>

Schema ==
  << DInt("i", "7"), DStr("s", "d"), DIntList("l", <<>>),
     DSec("sec", {}, << DInt("x", "5"), DFunc("include", "include") >>),
     (* creating an instance scans the default value "{1, 2}" with a nested scanner buffer *)
     DSec("m", {"MULTI"}, << DIntList("ml", <<"1", "2">>) >>),
     DFunc("include", "include") >>

F(n) == "$R/" \o n \o ".conf"
File(toks) == [kind |-> "file", toks |-> toks]
Inc(n) == <<TkStr("include"), TkP("("), TkStr(F(n)), TkP(")")>>
NL(t) == [t EXCEPT !.nl = 1]

Chain == [k \in 1..11 |-> IF k = 11 THEN <<TkStr("i"), TkP("="), TkStr("3")>> ELSE Inc("k" \o ToString(k + 1))]

FS ==
  (F("f1") :> File(<<TkStr("i"), TkP("="), TkStr("1")>>)) @@
  (F("f2") :> File(Inc("f1") \o <<NL(TkStr("s")), TkP("="), TkStr("x")>>)) @@
  (F("f3") :> File(<<TkStr("sec"), TkP("{"), NL(TkStr("x")), TkP("="), TkStr("2"), NL(TkP("}"))>>)) @@
  (F("fe") :> File(<<NL(TkStr("sec")), TkP("{"), NL(TkStr("x")), TkP("="), TkP("="), TkP("}")>>)) @@
  (F("fs") :> File(Inc("fs"))) @@
  (F("fx") :> File(<<TkStr("x"), TkP("="), TkStr("2")>>)) @@
  (F("fm") :> File(<<TkStr("m"), TkP("{"), TkP("}")>>)) @@
  (F("nl") :> File(<<NL(NL(TkStr("l"))), TkP("="), TkP("{"), TkStr("1"), NL(TkP(",")), TkStr("2"), TkP("}"), NL(Tk("cmt", "c", 0))>>)) @@
  ("$R/dir" :> [kind |-> "dir", toks |-> <<>>]) @@
  [n \in {F("k" \o ToString(k)) : k \in 1..11} |->
     File(Chain[CHOOSE k \in 1..11 : F("k" \o ToString(k)) = n])]

Names == {F("fm"), F("fx"), F("f1"), F("f2"), F("f3"), F("fe"), F("fs"), F("nl"), F("k1"), F("k2"), "$R/dir", F("none")}

NlUsed == LET G[i \in 0..Len(hist)] == IF i = 0 THEN 0 ELSE G[i-1] + hist[i].nl IN G[Len(hist)]
NlChoices == IF NlUsed < NlBudget THEN {0, 1} ELSE {0}
Alphabet ==
  {[t EXCEPT !.nl = n] : t \in {TkStr("include"), TkP("("), TkP(")"), TkStr("i"), TkP("="), TkStr("1"),
                                TkStr("sec"), TkP("{"), TkP("}"), TkStr("x")} \cup {TkStr(n) : n \in Names},
                         n \in NlChoices}

Root0 == MkSec(Null, InitOpts(Schema))
Ps0 == WithFs(PInit(Root0, PlainCfg, "buf", FALSE, 0, 0, 0), FS)

Init == hist = <<>> /\ ps = Ps0
Next == /\ ps.status = "more" /\ Len(hist) < MaxLen
        /\ \E t \in Alphabet : hist' = Append(hist, t) /\ ps' = PStepI(ps, t)
Spec == Init /\ [][Next]_vars

Fin == IF ps.status = "more" THEN PStepI(ps, TkEof) ELSE ps

(* ------------------------------------------------------------------ *)
(* C13: including a file = reading its text in place                    *)
(* ------------------------------------------------------------------ *)
RECURSIVE Flat(_, _)
Flat(toks, fuel) ==
  IF toks = <<>> THEN <<>>
  ELSE IF /\ fuel > 0 /\ Len(toks) >= 4
          /\ toks[1].k = "str" /\ toks[1].v = "include" /\ toks[2].k = "(" /\ toks[3].k = "str" /\ toks[4].k = ")"
          /\ toks[3].v \in DOMAIN FS /\ FS[toks[3].v].kind = "file"
         THEN Flat(FS[toks[3].v].toks, fuel - 1) \o Flat(SubSeq(toks, 5, Len(toks)), fuel)
  ELSE <<Head(toks)>> \o Flat(Tail(toks), fuel)

P_C13_Flatten ==
  ps.status = "more" =>
     (Fin.status = "ok" =>
        LET q == PRun(PInit(Root0, PlainCfg, "buf", FALSE, 0, 0, 0), Append(Flat(hist, 12), TkEof))
        IN q.status = "ok" /\ DenSec(RootOf(q)) = DenSec(RootOf(Fin)))

(* after an include returns, the including source's name and line numbering are back *)
RECURSIVE NewlinesOf(_)
NewlinesOf(toks) == IF toks = <<>> THEN 0 ELSE Head(toks).nl + Head(toks).nlin + NewlinesOf(Tail(toks))
P_C13_PositionRestored ==
  (ps.status = "more" /\ ps.inc = <<>>) => (ps.file = "buf" /\ ps.line = 1 + NewlinesOf(hist))

(* a missing / directory / too deeply nested target is a reported parse error;
   nothing stays open afterwards (the model unwinds: inc is irrelevant once failed) *)
P_C13_FailureReported ==
  ps.status = "fail" => ps.diags # <<>>

(* the depth limit: a chain of ten files is accepted, eleven is not *)
P_C13_DepthLimit ==
  /\ PRun(Ps0, Inc("k2") \o <<TkEof>>).status = "ok"
  /\ PRun(Ps0, Inc("k1") \o <<TkEof>>).status = "fail"
  /\ PRun(Ps0, Inc("fs") \o <<TkEof>>).status = "fail"

Expected(p) ==
  [status |-> p.status, obs |-> ObsSec(RootOf(p)),
   ndiag |-> IF p.diags = <<>> THEN "0" ELSE "some",
   diag1 |-> IF p.diags = <<>> THEN [file |-> Null, line |-> 0] ELSE p.diags[1],
   cblog |-> <<>>, freed |-> <<>>]

Emit == PrintT(<<"BEH", ToJson([sid |-> 1, pcfg |-> PlainCfg,
                                parses |-> <<[toks |-> IF ps.status = "more" THEN Append(hist, TkEof) ELSE hist,
                                              exp |-> Expected(Fin)]>>])>>)

ASSUME PrintT(<<"SCHEMA", 1, ToJson(Schema)>>)
ASSUME PrintT(<<"FS", ToJson(FS)>>)
=============================================================================
