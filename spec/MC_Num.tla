------------------------------- MODULE MC_Num -------------------------------
(***************************************************************************)
(* Every token up to a length bound over the numeral alphabet (C04).       *)
(* Checked on the specification: the operational conversion (prefix guess, *)
(* digits-only guard, strtol with its leniencies) accepts exactly the      *)
(* reference grammar and yields the same number; without the guard the     *)
(* leniencies leak (witness config).  Every token is exported and replayed *)
(* through the parser, cfg_setopt and cfg_setmulti with three ambient      *)
(* errno values.                                                           *)
(***************************************************************************)
EXTENDS Numeral, Json

CONSTANTS MaxLen, Alpha, Guard

VARIABLE tok
vars == <<tok>>

AlphaSet ==
  CASE Alpha = "int"   -> {48, 49, 55, 56, 57, 97, 102, 120, 98, 43, 45, 32}       \* 0 1 7 8 9 a f x b + - space
    [] Alpha = "float" -> {48, 49, 57, 46, 101, 43, 45, 120, 112, 32}             \* 0 1 9 . e + - x p space
    [] Alpha = "bool"  -> {116, 114, 117, 101, 84, 111, 110, 79, 102, 121, 115, 97, 108}

Init == tok = <<>>
Next == Len(tok) < MaxLen /\ \E b \in AlphaSet : tok' = Append(tok, b)
Spec == Init /\ [][Next]_vars

(* C04: accepted iff the reference grammar says so, and then the same number *)
P_C04_IntExact ==
  Alpha = "int" =>
     LET r == RefInt(tok)  o == OpInt(tok, Guard)
     IN r.v = "unspec" \/ (o.v = r.v /\ (r.v = "ok" => (o.radix = r.radix /\ o.neg = r.neg /\ o.digs = r.digs)))

Emit == PrintT(<<"BEH", ToJson([tok |-> tok, alpha |-> Alpha,
                                int |-> RefInt(tok), float |-> RefFloat(tok), bool |-> RefBool(tok)])>>)
=============================================================================
