------------------------------ MODULE Printer -------------------------------
(***************************************************************************)
(* cfg_print / cfg_print_indent / cfg_opt_print as a function from the     *)
(* store to the sequence of lines written (confuse.c:                      *)
(* cfg_print_pff_indent, cfg_opt_print_pff_indent, cfg_opt_nprint_var).    *)
(* Each line is a record [ind, kind, name, text]; text is the exact text   *)
(* of the line.  PrintToks gives the same output as the token sequence the *)
(* scanner will see when that text is parsed again (C05).                  *)
(***************************************************************************)
EXTENDS Parser

(* print filters: filter k hides the option names in HideSet(k); 0 = none *)
HideSet(k) == CASE k = 1 -> {"i", "x"} [] k = 2 -> {"s", "t", "l"} [] k = 3 -> {"x", "sec"} [] OTHER -> {}

RECURSIVE Ind(_)
Ind(n) == IF n = 0 THEN "" ELSE "  " \o Ind(n - 1)

(* string printer: double quotes, with '"' '\' (and, repaired, '$') escaped *)
RECURSIVE EscStr(_)
EscStr(s) ==
  IF s = "" THEN ""
  ELSE LET c == SubSeq(s, 1, 1)
       IN (IF c = "\"" THEN "\\\"" ELSE IF c = "\\" THEN "\\\\" ELSE IF c = "$" THEN "\\$" ELSE c)
          \o EscStr(SubSeq(s, 2, Len(s)))
Quoted(s) == "\"" \o EscStr(IF s = Null THEN "" ELSE s) \o "\""

(* built-in formatting of value i (1-based) of option o; what an absent value prints as *)
Builtin(o, i) ==
  LET has == i <= Len(o.vals)
  IN CASE o.type = "int"   -> IF has THEN o.vals[i] ELSE "0"
       [] o.type = "float" -> IF has THEN F6(o.vals[i]) ELSE "0.000000"
       [] o.type = "bool"  -> IF has THEN o.vals[i] ELSE "false"
       [] o.type = "str"   -> IF has THEN Quoted(o.vals[i]) ELSE Quoted("")
       [] OTHER            -> ""
(* a per-option print callback replaces the built-in formatting *)
ValText(o, i) == IF "print" \in o.cb THEN "<" \o o.name \o "#" \o ToString(i - 1) \o ">" ELSE Builtin(o, i)

RECURSIVE JoinVals(_, _)
JoinVals(o, i) ==
  IF i > Len(o.vals) THEN ""
  ELSE ValText(o, i) \o (IF i < Len(o.vals) THEN ", " ELSE "") \o JoinVals(o, i + 1)

Line(ind, kind, name, text) == [ind |-> ind, kind |-> kind, name |-> name, text |-> Ind(ind) \o text]

Unset(o) == o.vals = <<>> \/ (o.type = "str" /\ o.vals[1] = Null)

RECURSIVE PrintSec(_, _, _), PrintOpts(_, _, _, _), PrintInstances(_, _, _, _)

PrintOpt(o, pff, ind) ==
  LET cl == IF o.cmt # Null THEN <<Line(ind, "cmt", o.name, "/* " \o o.cmt \o " */")>> ELSE <<>>
  IN cl \o
     (CASE o.type = "sec"  -> PrintInstances(o, pff, ind, 1)
        [] o.type = "func" -> IF "print" \in o.cb THEN <<Line(ind, "func", o.name, ValText(o, 1))>> ELSE <<>>
        [] OTHER ->
             IF IsList(o)
               THEN <<Line(ind, "list", o.name, o.name \o " = {" \o JoinVals(o, 1) \o "}")>>
               ELSE <<Line(ind, IF Unset(o) THEN "unset" ELSE "scalar", o.name,
                           (IF Unset(o) THEN "# " ELSE "") \o o.name \o "=" \o ValText(o, 1))>>)

PrintInstances(o, pff, ind, j) ==
  IF j > Len(o.vals) THEN <<>>
  ELSE <<Line(ind, "open", o.name,
              o.name \o (IF "TITLE" \in o.flags
                           THEN " " \o Quoted(o.vals[j].title)     \* escaped like a string value
                           ELSE "") \o " {")>>
       \o PrintSec(o.vals[j], pff, ind + 1)
       \o <<Line(ind, "close", o.name, "}")>>
       \o PrintInstances(o, pff, ind, j + 1)

(* fb: the filter inherited from the enclosing context (0 = none) *)
PrintOpts(opts, pff, ind, i) ==
  IF i > Len(opts) THEN <<>>
  ELSE (IF pff # 0 /\ opts[i].name \in HideSet(pff) THEN <<>> ELSE PrintOpt(opts[i], pff, ind))
       \o PrintOpts(opts, pff, ind, i + 1)
PrintSec(sec, fb, ind) == PrintOpts(sec.opts, IF sec.pff # 0 THEN sec.pff ELSE fb, ind, 1)

(* cfg_print(cfg) / cfg_print_indent(cfg, n) *)
PrintCfg(sec, ind) == PrintSec(sec, 0, ind)
(* cfg_opt_print(opt) / cfg_opt_print_indent(opt, n) *)
PrintOne(o, ind) == PrintOpt(o, 0, ind)

(* ------------------------------------------------------------------ *)
(* the same output as tokens (what parsing the printed text will see)  *)
(* ------------------------------------------------------------------ *)
TokText(o, i) ==
  CASE o.type = "float" -> F6(o.vals[i])
    [] o.type = "str"   -> IF o.vals[i] = Null THEN "" ELSE o.vals[i]
    [] OTHER            -> o.vals[i]

RECURSIVE ListToks(_, _), SecToks(_), OptsToks(_, _), InstToks(_, _)
ListToks(o, i) ==
  IF i > Len(o.vals) THEN <<>>
  ELSE <<TkStr(TokText(o, i))>> \o (IF i < Len(o.vals) THEN <<TkP(",")>> ELSE <<>>) \o ListToks(o, i + 1)
OptToks(o) ==
  (IF o.cmt # Null THEN <<Tk("cmt", o.cmt, 0)>> ELSE <<>>) \o
  (CASE o.type = "sec"  -> InstToks(o, 1)
     [] o.type = "func" -> <<>>
     [] OTHER -> IF IsList(o) THEN <<TkStr(o.name), TkP("="), TkP("{")>> \o ListToks(o, 1) \o <<TkP("}")>>
                 ELSE IF Unset(o) THEN <<Tk("cmt", o.name \o "=" \o ValText(o, 1), 0)>>   \* commented out
                 ELSE <<TkStr(o.name), TkP("="), TkStr(TokText(o, 1))>>)
InstToks(o, j) ==
  IF j > Len(o.vals) THEN <<>>
  ELSE <<TkStr(o.name)>> \o (IF "TITLE" \in o.flags
                                THEN <<TkStr(IF o.vals[j].title = Null THEN "" ELSE o.vals[j].title)>> ELSE <<>>)
       \o <<TkP("{")>> \o SecToks(o.vals[j]) \o <<TkP("}")>> \o InstToks(o, j + 1)
OptsToks(opts, i) == IF i > Len(opts) THEN <<>> ELSE OptToks(opts[i]) \o OptsToks(opts, i + 1)
SecToks(sec) == OptsToks(sec.opts, 1)
PrintToks(sec) == SecToks(sec) \o <<TkEof>>

(* what C05 compares between a configuration and its re-parsed print *)
RECURSIVE RtSec(_)
RtOpt(o) == [n |-> o.name,
             v |-> IF o.type = "sec" THEN [i \in 1..Len(o.vals) |-> RtSec(o.vals[i])]
                   ELSE [i \in 1..Len(o.vals) |-> IF o.type = "float" THEN F6(o.vals[i]) ELSE o.vals[i]],
             c |-> o.cmt]
RtSec(s) == [t |-> s.title, o |-> [i \in 1..Len(s.opts) |-> RtOpt(s.opts[i])]]

(* the same without annotations: a scalar written commented out ("# name=value") is read back *)
(* as a comment, which annotation support then attaches to the option that follows it          *)
RECURSIVE RtSecV(_), AnyUnset(_)
RtOptV(o) == [n |-> o.name,
              v |-> IF o.type = "sec" THEN [i \in 1..Len(o.vals) |-> RtSecV(o.vals[i])]
                    ELSE [i \in 1..Len(o.vals) |-> IF o.type = "float" THEN F6(o.vals[i]) ELSE o.vals[i]]]
RtSecV(s) == [t |-> s.title, o |-> [i \in 1..Len(s.opts) |-> RtOptV(s.opts[i])]]
AnyUnset(s) == \E i \in 1..Len(s.opts) :
                 LET o == s.opts[i]
                 IN IF o.type = "sec" THEN \E j \in 1..Len(o.vals) : AnyUnset(o.vals[j])
                    ELSE o.type # "func" /\ ~IsList(o) /\ Unset(o)

=============================================================================
