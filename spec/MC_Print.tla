------------------------------ MODULE MC_Print ------------------------------
(***************************************************************************)
(* Printing (C19): every combination of print filters installed at the     *)
(* nesting levels of a populated tree, of options carrying a print         *)
(* callback, and of print entry points.  Each combination is one           *)
(* behaviour replayed into the real library; TLC checks the declarative    *)
(* reading of C19 on the line records.                                     *)
(***************************************************************************)
EXTENDS Printer, Json

VARIABLES root, setup, out
vars == <<root, setup, out>>

PSchema ==
  << DInt("i", "7"), DStr("s", "d"), DIntList("l", <<"1","2">>), DStrList("sl", <<>>),
     WithFlags(DInt("nd", "0"), {"NODEFAULT"}), DFloat("f", "1.5"), DBool("b", "false"),
     DSec("sec", {}, << DInt("x", "5"), DStr("s", Null),
                        DSec("sub", {}, << DInt("y", "1"), DInt("x", "3"),
                                           (* values in the caller's variables: set / a NULL string *)
                                           DSimple("sv", "int", "0"), DSimple("sw", "str", Null) >>),
                        DFunc("g", "user") >>),
     DSec("t", {"MULTI","TITLE"}, << DInt("x", "5"), DIntList("l", <<>>) >>),
     DFunc("fn", "user"),
     (* user-pointer options (value-parsing callback): an unset scalar and a list of two; the built-in *)
     (* formatting writes nothing for such a value, the frame around it is written all the same        *)
     DPtr("p"), DPtrList("pl") >>

PreToks ==
  << TkStr("t"), TkStr("a"), TkP("{"), TkStr("x"), TkP("="), TkStr("1"), TkP("}"),
     TkStr("t"), TkStr("b"), TkP("{"), TkStr("l"), TkP("="), TkP("{"), TkStr("3"), TkP("}"), TkP("}"),
     TkStr("sec"), TkP("{"), TkStr("sub"), TkP("{"), TkStr("y"), TkP("="), TkStr("2"), TkP("}"), TkP("}"),
     Tk("cmt", "note", 0), TkStr("i"), TkP("="), TkStr("3"),
     TkStr("sl"), TkP("="), TkP("{"), TkStr("a b"), TkP(","), TkStr("q\"\\"), TkP("}"),
     TkStr("pl"), TkP("="), TkP("{"), TkStr("u"), TkP(","), TkStr("v"), TkP("}"), TkEof >>

InitRoot == MkSec(Null, InitOpts(PSchema))
Root0 == RootOf(PRun(PInit(InitRoot, ParseCfg(FALSE, TRUE, FALSE, 0, 0, 0), "buf", FALSE, 0, 0, 0), PreToks))

(* where filters can be installed: root, sec, sec|sub, first instance of t *)
SEC  == <<[oi |-> 8, ii |-> 1]>>
SUB  == <<[oi |-> 8, ii |-> 1], [oi |-> 3, ii |-> 1]>>
T1   == <<[oi |-> 9, ii |-> 1]>>

RECURSIVE SetPff(_, _, _)
SetPff(sec, sp, k) ==
  IF sp = <<>> THEN [sec EXCEPT !.pff = k]
  ELSE LET h == Head(sp) IN [sec EXCEPT !.opts[h.oi].vals[h.ii] = SetPff(@, Tail(sp), k)]

(* print callbacks by option: root-level i, l, fn; x of the first t instance *)
WithPrintCb(r, cbs) ==
  LET r1 == IF "i" \in cbs THEN [r EXCEPT !.opts[1].cb = @ \cup {"print"}] ELSE r
      r2 == IF "l" \in cbs THEN [r1 EXCEPT !.opts[3].cb = @ \cup {"print"}] ELSE r1
      r3 == IF "fn" \in cbs THEN [r2 EXCEPT !.opts[10].cb = @ \cup {"print"}] ELSE r2
      r4 == IF "t|x" \in cbs THEN [r3 EXCEPT !.opts[9].vals[1].opts[1].cb = @ \cup {"print"}] ELSE r3
      r5 == IF "nd" \in cbs THEN [r4 EXCEPT !.opts[5].cb = @ \cup {"print"}] ELSE r4     \* an unset scalar
  IN r5

Setups ==
  [froot : 0..2, fsec : {0, 1, 3}, fsub : {0, 1}, ft1 : {0, 3}, cbs : SUBSET {"i", "l", "fn", "t|x", "nd"},
   target : {"root", "rootind", "sec", "opt:l", "opt:sec", "opt:t", "opt:nd", "sec9", "opt:sec12"}]

Build(s) ==
  WithPrintCb(SetPff(SetPff(SetPff(SetPff(Root0, <<>>, s.froot), SEC, s.fsec), SUB, s.fsub), T1, s.ft1), s.cbs)

Output(r, s) ==
  CASE s.target = "root"    -> PrintCfg(r, 0)
    [] s.target = "rootind" -> PrintCfg(r, 2)
    [] s.target = "sec"     -> PrintCfg(r.opts[8].vals[1], 1)
    [] s.target = "opt:l"   -> PrintOne(r.opts[3], 0)
    [] s.target = "opt:sec" -> PrintOne(r.opts[8], 1)
    [] s.target = "opt:t"   -> PrintOne(r.opts[9], 0)
    [] s.target = "opt:nd"  -> PrintOne(r.opts[5], 0)
    (* deep indentation: the entry points take any starting level *)
    [] s.target = "sec9"    -> PrintCfg(r.opts[8].vals[1], 9)
    [] s.target = "opt:sec12" -> PrintOne(r.opts[8], 12)

Init == /\ setup \in Setups
        /\ root = Build(setup)
        /\ out = Output(root, setup)
Next == UNCHANGED vars
Spec == Init /\ [][Next]_vars

(* ------------------------------------------------------------------ *)
(* C19, read declaratively: the effective filter of a section instance  *)
(* is the filter of the nearest enclosing context (itself included)     *)
(* that has one; each instance contributes its unfiltered options once, *)
(* in declaration order, at its depth.                                  *)
(* ------------------------------------------------------------------ *)
HeadKinds == {"scalar", "unset", "list", "open", "func"}
Heads(lines) == SelectSeq(lines, LAMBDA l : l.kind \in HeadKinds)

RECURSIVE LastNonZero(_)
LastNonZero(s) == IF s = <<>> THEN 0 ELSE IF s[Len(s)] # 0 THEN s[Len(s)] ELSE LastNonZero(SubSeq(s, 1, Len(s) - 1))

RECURSIVE RefSec(_, _, _), RefOpts(_, _, _, _), RefInst(_, _, _, _)
RefOpt(o, anc, d) ==
  CASE o.type = "sec"  -> RefInst(o, anc, d, 1)
    [] o.type = "func" -> IF "print" \in o.cb THEN <<[ind |-> d, name |-> o.name]>> ELSE <<>>
    [] OTHER           -> <<[ind |-> d, name |-> o.name]>>
RefInst(o, anc, d, j) ==
  IF j > Len(o.vals) THEN <<>>
  ELSE <<[ind |-> d, name |-> o.name]>> \o RefSec(o.vals[j], anc, d + 1) \o RefInst(o, anc, d, j + 1)
RefOpts(opts, anc, d, i) ==
  IF i > Len(opts) THEN <<>>
  ELSE (IF opts[i].name \in HideSet(LastNonZero(anc)) THEN <<>> ELSE RefOpt(opts[i], anc, d)) \o RefOpts(opts, anc, d, i + 1)
RefSec(sec, anc, d) == RefOpts(sec.opts, Append(anc, sec.pff), d, 1)

HeadPairs(lines) == [i \in 1..Len(Heads(lines)) |-> [ind |-> Heads(lines)[i].ind, name |-> Heads(lines)[i].name]]

P_C19_ExactlyOnceInOrder ==
  CASE setup.target = "root"    -> HeadPairs(out) = RefSec(root, <<>>, 0)
    [] setup.target = "rootind" -> HeadPairs(out) = RefSec(root, <<>>, 2)
    [] setup.target = "sec"     -> HeadPairs(out) = RefSec(root.opts[8].vals[1], <<>>, 1)
    [] setup.target = "opt:sec" -> HeadPairs(out) = RefOpt(root.opts[8], <<>>, 1)
    [] setup.target = "opt:t"   -> HeadPairs(out) = RefOpt(root.opts[9], <<>>, 0)
    [] OTHER -> TRUE

(* every open has its close at the same depth, bodies are one level deeper *)
P_C19_Nesting ==
  \A i \in 1..Len(out) :
     out[i].kind = "open" =>
        \E j \in (i+1)..Len(out) :
           /\ out[j].kind = "close" /\ out[j].ind = out[i].ind /\ out[j].name = out[i].name
           /\ \A k \in (i+1)..(j-1) : out[k].ind > out[i].ind

(* scalar options without a value are written commented out *)
StartsWith(s, p) == Len(s) >= Len(p) /\ SubSeq(s, 1, Len(p)) = p
P_C19_UnsetCommentedOut ==
  \A i \in 1..Len(out) :
     /\ out[i].kind = "unset"  => StartsWith(out[i].text, Ind(out[i].ind) \o "# " \o out[i].name \o "=")
     /\ out[i].kind = "scalar" => StartsWith(out[i].text, Ind(out[i].ind) \o out[i].name \o "=")

(* a print callback replaces the formatting of exactly that option *)
HasMarker(s) == \E k \in 1..Len(s) : SubSeq(s, k, k) = "<"
P_C19_PrintCb ==
  \A i \in 1..Len(out) :
     out[i].kind \in {"scalar", "unset", "list", "func"} =>
        (HasMarker(out[i].text) <=>
           \/ (out[i].ind = (IF setup.target = "rootind" THEN 2 ELSE 0) /\ out[i].name \in (setup.cbs \cap {"i", "l", "fn", "nd"}))
           \/ (out[i].name = "x" /\ "t|x" \in setup.cbs /\
               \E j \in 1..(i-1) : out[j].kind = "open" /\ out[j].name = "t" /\ out[j].ind = out[i].ind - 1
                                   /\ (\A k \in (j+1)..(i-1) : out[k].ind >= out[i].ind)
                                   /\ (\A m \in 1..(j-1) : ~(out[m].kind = "open" /\ out[m].name = "t"))))

Emit == PrintT(<<"BEH", ToJson([setup |-> [froot |-> setup.froot, fsec |-> setup.fsec, fsub |-> setup.fsub,
                                         ft1 |-> setup.ft1, cbs |-> setup.cbs, target |-> setup.target],
                                lines |-> [i \in 1..Len(out) |-> out[i].text]])>>)

ASSUME PrintT(<<"SCHEMA", 1, ToJson(PSchema)>>)
ASSUME PrintT(<<"PRETOKS", ToJson(PreToks)>>)
ASSUME PrintT(<<"HIDE", ToJson([k \in 1..3 |-> HideSet(k)])>>)
=============================================================================
